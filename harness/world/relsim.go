package world

import (
	"context"
	"fmt"

	cmtsecp "github.com/cometbft/cometbft/crypto/secp256k1"
	"github.com/cosmos/cosmos-sdk/client/tx"
	codectypes "github.com/cosmos/cosmos-sdk/codec/types"
	cryptotypes "github.com/cosmos/cosmos-sdk/crypto/types"
	sdk "github.com/cosmos/cosmos-sdk/types"
	"github.com/cosmos/cosmos-sdk/types/tx/signing"
	xauthsigning "github.com/cosmos/cosmos-sdk/x/auth/signing"
	authtypes "github.com/cosmos/cosmos-sdk/x/auth/types"
	goatcrypto "github.com/goatnetwork/goat/pkg/crypto"
	relayertypes "github.com/goatnetwork/goat/x/relayer/types"
)

// TxSpec describes one SDK transaction to be built and signed by the harness.
type TxSpec struct {
	Msgs    []sdk.Msg
	Priv    cryptotypes.PrivKey // signing key
	PubKey  cryptotypes.PubKey  // key announced in signer info (default Priv.PubKey())
	AccNum  uint64
	Seq     uint64
	Timeout uint64
	Memo    string
	ChainID string // default: the world's
	Gas     uint64
	// Extra signers make a multi-signer transaction (each signs with the same mode).
	Extra []ExtraSigner
	// FeePayer / FeeGranter fill the fee fields of auth_info; a payer other than the message signer is a required signer
	// (the last one) and must be listed in Extra to sign.
	FeePayer   sdk.AccAddress
	FeeGranter sdk.AccAddress
}

type ExtraSigner struct {
	Priv   cryptotypes.PrivKey
	AccNum uint64
	Seq    uint64
}

// SignTx builds and signs a transaction in SIGN_MODE_DIRECT.
func (w *World) SignTx(s TxSpec) ([]byte, error) {
	txc := w.txConfig
	b := txc.NewTxBuilder()
	gas := s.Gas
	if gas == 0 {
		gas = 10_000_000
	}
	b.SetGasLimit(gas)
	b.SetTimeoutHeight(s.Timeout)
	b.SetMemo(s.Memo)
	if s.FeePayer != nil {
		b.SetFeePayer(s.FeePayer)
	}
	if s.FeeGranter != nil {
		b.SetFeeGranter(s.FeeGranter)
	}
	if err := b.SetMsgs(s.Msgs...); err != nil {
		return nil, err
	}
	chainID := s.ChainID
	if chainID == "" {
		chainID = w.Cfg.ChainID
	}
	mode := signing.SignMode(txc.SignModeHandler().DefaultMode())
	type sg struct {
		priv   cryptotypes.PrivKey
		pub    cryptotypes.PubKey
		accNum uint64
		seq    uint64
	}
	pub := s.PubKey
	if pub == nil {
		pub = s.Priv.PubKey()
	}
	signers := []sg{{s.Priv, pub, s.AccNum, s.Seq}}
	for _, e := range s.Extra {
		signers = append(signers, sg{e.Priv, e.Priv.PubKey(), e.AccNum, e.Seq})
	}
	var empty []signing.SignatureV2
	for _, g := range signers {
		empty = append(empty, signing.SignatureV2{PubKey: g.pub, Data: &signing.SingleSignatureData{SignMode: mode}, Sequence: g.seq})
	}
	if err := b.SetSignatures(empty...); err != nil {
		return nil, err
	}
	var sigs []signing.SignatureV2
	for _, g := range signers {
		sig, err := tx.SignWithPrivKey(context.Background(), mode, xauthsigning.SignerData{
			Address: sdk.AccAddress(g.pub.Address()).String(), ChainID: chainID, AccountNumber: g.accNum, Sequence: g.seq, PubKey: g.pub,
		}, b, g.priv, txc, g.seq)
		if err != nil {
			return nil, err
		}
		sig.PubKey = g.pub
		sigs = append(sigs, sig)
	}
	if err := b.SetSignatures(sigs...); err != nil {
		return nil, err
	}
	return txc.TxEncoder()(b.GetTx())
}

// Account returns number and sequence of an account in node 0's committed state.
func (c *Chain) Account(addr sdk.AccAddress) (num, seq uint64, ok bool) {
	var resp authtypes.QueryAccountResponse
	err := c.Nodes[0].Query("/cosmos.auth.v1beta1.Query/Account", &authtypes.QueryAccountRequest{Address: addr.String()}, &resp)
	if err != nil || resp.Account == nil {
		return 0, 0, false
	}
	var acc sdk.AccountI
	if err := c.W.cdc.InterfaceRegistry().UnpackAny(resp.Account, &acc); err != nil {
		return 0, 0, false
	}
	return acc.GetAccountNumber(), acc.GetSequence(), true
}

// RelayerState is what Query/Relayer reports.
func (c *Chain) RelayerState() (*relayertypes.QueryRelayerResponse, error) {
	var r relayertypes.QueryRelayerResponse
	if err := c.Nodes[0].Query("/goat.relayer.v1.Query/Relayer", &relayertypes.QueryRelayerRequest{}, &r); err != nil {
		return nil, err
	}
	return &r, nil
}

// MemberByAddr finds a generated member by bech32 address among the given pools.
func MemberByAddr(addr string, pools ...[]*Member) *Member {
	for _, p := range pools {
		for _, m := range p {
			if m.AddrStr == addr {
				return m
			}
		}
	}
	return nil
}

// Bitmap renders the given marked positions into nbytes bytes (kelindar layout: bit i of the
// little-endian bit string). Marks beyond nbytes*8 are dropped.
func Bitmap(marks []int, nbytes int) []byte {
	if nbytes == 0 {
		return nil
	}
	b := make([]byte, nbytes)
	for _, m := range marks {
		if m >= 0 && m/8 < nbytes {
			b[m/8] |= 1 << (uint(m) % 8)
		}
	}
	return b
}

// AggSign returns the aggregate BLS signature of the members over doc.
func AggSign(doc []byte, signers []*Member) ([]byte, error) {
	if len(signers) == 0 {
		return make([]byte, goatcrypto.SignatureLength), nil
	}
	var sigs [][]byte
	for _, m := range signers {
		sigs = append(sigs, goatcrypto.Sign(m.BLS, doc))
	}
	return goatcrypto.AggregateSignatures(sigs)
}

// VoteCtx is the context a vote is signed for.
type VoteCtx struct {
	ChainID  string
	Proposer string
	Seq      uint64
	Epoch    uint64
}

// MakeVote builds a Votes value: signers sign the doc of (ctx, msg); bitmap bytes are given.
func MakeVote(msg relayertypes.IVoteMsg, vc VoteCtx, signers []*Member, bitmap []byte) (*relayertypes.Votes, error) {
	doc := relayertypes.VoteSignDoc(msg.MethodName(), vc.ChainID, vc.Proposer, vc.Seq, vc.Epoch, msg.VoteSigDoc())
	sig, err := AggSign(doc, signers)
	if err != nil {
		return nil, err
	}
	return &relayertypes.Votes{Sequence: vc.Seq, Epoch: vc.Epoch, Voters: bitmap, Signature: sig}, nil
}

// Group is the harness's view of the current relayer group, resolved to generated members.
type Group struct {
	Epoch    uint64
	Seq      uint64
	Accepted bool
	Proposer *Member
	Voters   []*Member // in the order the chain lists them; nil entries for members the harness has no key for
	Raw      *relayertypes.QueryRelayerResponse
}

// Group resolves the chain's current relayer group against the given member pools.
func (c *Chain) Group(pools ...[]*Member) (*Group, error) {
	r, err := c.RelayerState()
	if err != nil {
		return nil, err
	}
	if len(pools) == 0 {
		pools = [][]*Member{c.W.Members}
	}
	g := &Group{Epoch: r.Relayer.Epoch, Seq: r.Sequence, Accepted: r.Relayer.ProposerAccepted, Raw: r}
	g.Proposer = MemberByAddr(r.Relayer.Proposer, pools...)
	for _, v := range r.Relayer.Voters {
		g.Voters = append(g.Voters, MemberByAddr(v, pools...))
	}
	if g.Proposer == nil {
		return g, fmt.Errorf("proposer %s is not a generated member", r.Relayer.Proposer)
	}
	return g, nil
}

// Threshold is ceil(2(n+1)/3) in integer arithmetic for n voters plus the proposer.
func Threshold(nVoters int) int { return (2*(nVoters+1) + 2) / 3 }

// QuorumVote signs msg with the proposer and the first voters needed to reach the threshold.
func (c *Chain) QuorumVote(g *Group, msg relayertypes.IVoteMsg) (*relayertypes.Votes, error) {
	need := Threshold(len(g.Voters)) - 1
	signers := []*Member{g.Proposer}
	var marks []int
	for i, v := range g.Voters {
		if len(marks) >= need {
			break
		}
		if v == nil {
			continue
		}
		signers = append(signers, v)
		marks = append(marks, i)
	}
	nbytes := 0
	if len(marks) > 0 {
		nbytes = ((marks[len(marks)-1] / 64) + 1) * 8
	}
	return MakeVote(msg, VoteCtx{ChainID: c.W.Cfg.ChainID, Proposer: g.Proposer.AddrStr, Seq: g.Seq, Epoch: g.Epoch}, signers, Bitmap(marks, nbytes))
}

// RelayerTx signs msgs as the given member with its current account sequence plus bump.
func (c *Chain) RelayerTx(m *Member, seqBump uint64, msgs ...sdk.Msg) ([]byte, error) {
	num, seq, ok := c.Account(m.Addr)
	if !ok {
		return nil, fmt.Errorf("no account for %s", m.AddrStr)
	}
	return c.W.SignTx(TxSpec{Msgs: msgs, Priv: m.Tx, AccNum: num, Seq: seq + seqBump})
}

// ValPriv returns validator i's key in the cosmos flavour.
func (w *World) ValPriv(i int) cryptotypes.PrivKey { return cosmosSecp(w.Vals[i].Priv) }

func cosmosSecp(p cmtsecp.PrivKey) cryptotypes.PrivKey { return secpPriv(p) }

var _ = codectypes.NewAnyWithValue
