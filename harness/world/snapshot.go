package world

import (
	"encoding/json"
	"fmt"

	cmttypes "github.com/cometbft/cometbft/types"
	authtypes "github.com/cosmos/cosmos-sdk/x/auth/types"
	bitcointypes "github.com/goatnetwork/goat/x/bitcoin/types"
	goatxtypes "github.com/goatnetwork/goat/x/goat/types"
	lockingtypes "github.com/goatnetwork/goat/x/locking/types"
	relayertypes "github.com/goatnetwork/goat/x/relayer/types"
)

// StoreNames are the IAVL stores of the application.
var StoreNames = []string{"acc", "relayer", "bitcoin", "locking", "goat", "consensus"}

// Snap is the observable committed state of one node.
type Snap struct {
	Height    int64
	AppHash   []byte
	Stores    map[string]string // store name -> hex commit hash
	Locking   lockingtypes.GenesisState
	Relayer   relayertypes.GenesisState
	Bitcoin   bitcointypes.GenesisState
	Goat      goatxtypes.GenesisState
	Auth      authtypes.GenesisState
	RawJSON   map[string]json.RawMessage
	ExpVals   []cmttypes.GenesisValidator // validators as ExportAppStateAndValidators reports them
	ExpHeight int64
	Export    []byte
}

// StoreHashes returns the commit hash of every store.
func (n *Node) StoreHashes() map[string]string {
	out := map[string]string{}
	cms := n.App.CommitMultiStore()
	for _, name := range StoreNames {
		k := n.App.GetKey(name)
		if k == nil {
			continue
		}
		out[name] = fmt.Sprintf("%x", cms.GetCommitKVStore(k).LastCommitID().Hash)
	}
	return out
}

// DumpStore returns every key/value pair of a module store (hex): the committed store, or - pending - the state a
// node holds after InitChain before anything is committed.
func (n *Node) DumpStore(name string, pending bool) (out map[string]string, err error) {
	defer func() {
		if r := recover(); r != nil {
			err = fmt.Errorf("panic while reading store %s: %v", name, r)
		}
	}()
	k := n.App.GetKey(name)
	if k == nil {
		return nil, fmt.Errorf("no store %q", name)
	}
	out = map[string]string{}
	var it interface {
		Valid() bool
		Next()
		Key() []byte
		Value() []byte
		Close() error
	}
	if pending {
		it = n.App.BaseApp.NewContext(false).KVStore(k).Iterator(nil, nil)
	} else {
		it = n.App.CommitMultiStore().GetKVStore(k).Iterator(nil, nil)
	}
	defer it.Close()
	for ; it.Valid(); it.Next() {
		out[fmt.Sprintf("%x", it.Key())] = fmt.Sprintf("%x", it.Value())
	}
	return out, nil
}

// Snapshot exports the committed state through ExportAppStateAndValidators.
func (n *Node) Snapshot() (*Snap, error) {
	if n.App.LastBlockHeight() == 0 {
		return nil, fmt.Errorf("nothing is committed yet (height 0): the application cannot export")
	}
	exp, err := n.App.ExportAppStateAndValidators(false, nil, nil)
	if err != nil {
		return nil, err
	}
	s := &Snap{Height: n.App.LastBlockHeight(), AppHash: n.App.LastCommitID().Hash, Stores: n.StoreHashes(), Export: exp.AppState, ExpVals: exp.Validators, ExpHeight: exp.Height}
	if err := json.Unmarshal(exp.AppState, &s.RawJSON); err != nil {
		return nil, err
	}
	cdc := n.App.AppCodec()
	if err := cdc.UnmarshalJSON(s.RawJSON["locking"], &s.Locking); err != nil {
		return nil, fmt.Errorf("locking export: %w", err)
	}
	if err := cdc.UnmarshalJSON(s.RawJSON["relayer"], &s.Relayer); err != nil {
		return nil, fmt.Errorf("relayer export: %w", err)
	}
	if err := cdc.UnmarshalJSON(s.RawJSON["bitcoin"], &s.Bitcoin); err != nil {
		return nil, fmt.Errorf("bitcoin export: %w", err)
	}
	if err := cdc.UnmarshalJSON(s.RawJSON["goat"], &s.Goat); err != nil {
		return nil, fmt.Errorf("goat export: %w", err)
	}
	if raw, ok := s.RawJSON["auth"]; ok {
		if err := cdc.UnmarshalJSON(raw, &s.Auth); err != nil {
			return nil, fmt.Errorf("auth export: %w", err)
		}
	}
	return s, nil
}

// Validator finds a validator in a locking export by consensus address.
func (s *Snap) Validator(cons []byte) *lockingtypes.Validator {
	for i := range s.Locking.Validators {
		v := &s.Locking.Validators[i]
		if string(cmtsecpPub(v.Pubkey).Address()) == string(cons) {
			return v
		}
	}
	return nil
}

// GenesisSnap renders the genesis document as a snapshot of "height 0" (nothing is committed
// before the first block, so the application itself cannot be asked).
func (w *World) GenesisSnap() (*Snap, error) {
	s := &Snap{Height: 0, Stores: map[string]string{}, Export: w.GenState}
	if err := json.Unmarshal(w.GenState, &s.RawJSON); err != nil {
		return nil, err
	}
	cdc := w.cdc
	for name, dst := range map[string]interface{ Unmarshal([]byte) error }{} {
		_, _ = name, dst
	}
	if err := cdc.UnmarshalJSON(s.RawJSON["locking"], &s.Locking); err != nil {
		return nil, err
	}
	if err := cdc.UnmarshalJSON(s.RawJSON["relayer"], &s.Relayer); err != nil {
		return nil, err
	}
	if err := cdc.UnmarshalJSON(s.RawJSON["bitcoin"], &s.Bitcoin); err != nil {
		return nil, err
	}
	if err := cdc.UnmarshalJSON(s.RawJSON["goat"], &s.Goat); err != nil {
		return nil, err
	}
	if err := cdc.UnmarshalJSON(s.RawJSON["auth"], &s.Auth); err != nil {
		return nil, err
	}
	for _, v := range w.GenVals {
		s.ExpVals = append(s.ExpVals, cmttypes.GenesisValidator{Address: v.Address, PubKey: v.PubKey, Power: v.VotingPower})
	}
	return s, nil
}
