package world

import (
	"bytes"
	"encoding/binary"
	"encoding/hex"
	"encoding/json"
	"errors"
	"fmt"
	"math/big"
	"net"
	"os"
	"strings"
	"sync"
	"time"

	"github.com/ethereum/go-ethereum/beacon/engine"
	"github.com/ethereum/go-ethereum/common"
	"github.com/ethereum/go-ethereum/common/hexutil"
	ethtypes "github.com/ethereum/go-ethereum/core/types"
	"github.com/ethereum/go-ethereum/core/types/goattypes"
	ethcrypto "github.com/ethereum/go-ethereum/crypto"
	"github.com/ethereum/go-ethereum/params"
	"github.com/ethereum/go-ethereum/rlp"
	"github.com/ethereum/go-ethereum/rpc"
)

// Requests is what the simulated system contracts emit for one execution block.
type Requests struct {
	Locking goattypes.LockingRequests
	Bridge  goattypes.BridgeRequests
	Relayer goattypes.RelayerRequests
	// Gas revenue of the block (exactly one GasRequest is always emitted unless GasCount overrides).
	Gas *big.Int
	// Raw, when non-nil, replaces the encoded list altogether (adversarial lists).
	Raw [][]byte
	// GasCount overrides the number of gas requests (default 1) for malformed proposals.
	GasCount *int
}

func (r *Requests) IsZero() bool {
	return r == nil || (len(r.Locking.Creates)+len(r.Locking.Locks)+len(r.Locking.Unlocks)+len(r.Locking.Claims)+
		len(r.Locking.Grants)+len(r.Locking.UpdateWeights)+len(r.Locking.UpdateThresholds)+
		len(r.Bridge.Withdraws)+len(r.Bridge.ReplaceByFees)+len(r.Bridge.Cancel1s)+len(r.Bridge.DepositTax)+
		len(r.Bridge.Confirmation)+len(r.Bridge.MinDeposit)+len(r.Relayer.Adds)+len(r.Relayer.Removes) == 0 && r.Raw == nil && r.GasCount == nil)
}

// Encode renders the request list for EL block number num.
func (r *Requests) Encode(num uint64) [][]byte {
	if r != nil && r.Raw != nil {
		return r.Raw
	}
	var rr Requests
	if r != nil {
		rr = *r
	}
	gas := rr.Gas
	if gas == nil {
		gas = big.NewInt(0)
	}
	lk := rr.Locking
	n := 1
	if rr.GasCount != nil {
		n = *rr.GasCount
	}
	lk.Gas = nil
	for i := 0; i < n; i++ {
		lk.Gas = append(lk.Gas, goattypes.NewGasRequest(num, gas))
	}
	var out [][]byte
	out = append(out, lk.Encode()...)
	out = append(out, rr.Bridge.Encode()...)
	out = append(out, rr.Relayer.Encode()...)
	return out
}

// SysTx is a decoded consensus->execution system transaction.
type SysTx struct {
	Raw    []byte
	Module uint8
	Action uint8
	Nonce  uint64
	Kind   string // "btcblock","deposit","paid","cancel2","unlock","reward","?"
	Tx     goattypes.Tx
}

func (s SysTx) String() string {
	switch t := s.Tx.(type) {
	case *goattypes.DepositTx:
		return fmt.Sprintf("deposit nonce=%d txid=%x vout=%d to=%x amount=%s tax=%s", s.Nonce, t.Txid[:4], t.TxOut, t.Target[:4], t.Amount, t.Tax)
	case *goattypes.PaidTx:
		return fmt.Sprintf("paid nonce=%d id=%s txid=%x amount=%s", s.Nonce, t.Id, t.Txid[:4], t.Amount)
	case *goattypes.Cancel2Tx:
		return fmt.Sprintf("cancel2 nonce=%d id=%s", s.Nonce, t.Id)
	case *goattypes.NewBtcBlockTx:
		return fmt.Sprintf("btcblock nonce=%d hash=%x", s.Nonce, t.Hash[:4])
	case *goattypes.CompleteUnlockTx:
		return fmt.Sprintf("unlock nonce=%d id=%d token=%x amount=%s", s.Nonce, t.Id, t.Token[:4], t.Amount)
	case *goattypes.DistributeRewardTx:
		return fmt.Sprintf("reward nonce=%d id=%d goat=%s gas=%s", s.Nonce, t.Id, t.Goat, t.GasReward)
	}
	return fmt.Sprintf("undecodable %x", s.Raw)
}

// DecodeSysTx decodes one typed (0x60) goat transaction.
func DecodeSysTx(raw []byte) (SysTx, error) {
	s := SysTx{Raw: raw, Kind: "?"}
	// first through go-ethereum's own decoder (what goat-geth would do) ...
	var tx ethtypes.Transaction
	if err := tx.UnmarshalBinary(raw); err != nil {
		return s, err
	}
	if tx.Type() != ethtypes.GoatTxType {
		return s, fmt.Errorf("not a goat tx: type %#x", tx.Type())
	}
	// ... then the payload fields
	var g ethtypes.GoatTx
	if err := rlp.DecodeBytes(raw[1:], &g); err != nil {
		return s, err
	}
	s.Module, s.Action, s.Nonce = uint8(g.Module), uint8(g.Action), g.Nonce
	inner, err := goattypes.DecodeTx(g.Module, g.Action, g.Data)
	if err != nil {
		return s, err
	}
	s.Tx = inner
	switch inner.(type) {
	case *goattypes.DepositTx:
		s.Kind = "deposit"
	case *goattypes.PaidTx:
		s.Kind = "paid"
	case *goattypes.Cancel2Tx:
		s.Kind = "cancel2"
	case *goattypes.NewBtcBlockTx:
		s.Kind = "btcblock"
	case *goattypes.CompleteUnlockTx:
		s.Kind = "unlock"
	case *goattypes.DistributeRewardTx:
		s.Kind = "reward"
	}
	return s, nil
}

// ELBackend is the block/payload store shared by all fronts of one world (every
// validator's execution client sees the same chain).
type ELBackend struct {
	mu       sync.Mutex
	payloads map[engine.PayloadID]*engine.ExecutionPayloadEnvelope
	blocks   map[common.Hash]*engine.ExecutableData
	nextID   uint64
	Genesis  common.Hash
}

func NewELBackend() *ELBackend {
	b := &ELBackend{payloads: map[engine.PayloadID]*engine.ExecutionPayloadEnvelope{}, blocks: map[common.Hash]*engine.ExecutableData{}}
	b.Genesis = ethcrypto.Keccak256Hash([]byte("verif-el-genesis"))
	b.blocks[b.Genesis] = &engine.ExecutableData{BlockHash: b.Genesis, Number: 0}
	return b
}

// BlockHashOf computes the fake block hash: a commitment to everything the
// consensus layer can alter, so that altered payloads are detected like a real
// execution client detects a header-hash mismatch.
func BlockHashOf(ed *engine.ExecutableData, beaconRoot common.Hash, reqs [][]byte) common.Hash {
	var buf bytes.Buffer
	buf.Write(ed.ParentHash[:])
	buf.Write(ed.FeeRecipient[:])
	buf.Write(ed.Random[:])
	binary.Write(&buf, binary.BigEndian, ed.Number)
	binary.Write(&buf, binary.BigEndian, ed.GasLimit)
	binary.Write(&buf, binary.BigEndian, ed.Timestamp)
	buf.Write(ed.ExtraData)
	for _, t := range ed.Transactions {
		binary.Write(&buf, binary.BigEndian, uint32(len(t)))
		buf.Write(t)
	}
	buf.Write(beaconRoot[:])
	for _, r := range reqs {
		binary.Write(&buf, binary.BigEndian, uint32(len(r)))
		buf.Write(r)
	}
	if ed.BlobGasUsed != nil {
		binary.Write(&buf, binary.BigEndian, *ed.BlobGasUsed)
	}
	// the rest of the header as well: a field that the consensus layer drops, defaults or truncates on the way
	// (state root, receipts root, bloom, gas used, base fee, excess blob gas) changes the hash of a real block too
	buf.Write(ed.StateRoot[:])
	buf.Write(ed.ReceiptsRoot[:])
	buf.Write(ed.LogsBloom)
	binary.Write(&buf, binary.BigEndian, ed.GasUsed)
	if ed.BaseFeePerGas != nil {
		buf.Write([]byte(ed.BaseFeePerGas.String()))
	}
	if ed.ExcessBlobGas != nil {
		binary.Write(&buf, binary.BigEndian, *ed.ExcessBlobGas)
	}
	return ethcrypto.Keccak256Hash(buf.Bytes())
}

// Call is one logged engine API call.
type Call struct {
	Seq    int
	Method string // fcu, fcuAttr, getPayload, newPayload
	Phase  string
	Arg    string // digest of the arguments that matter
	Result string
	Head   common.Hash // fcu: head; newPayload: block hash
	Safe   common.Hash
	Final  common.Hash
	Number uint64
	SysTxs [][]byte // fcuAttr: offered; newPayload: leading goat txs
}

// Fault describes one injected engine misbehaviour.
type Fault struct {
	Method string // fcu, fcuAttr, getPayload, newPayload
	Phase  string // prepare, process, finalize ("" = any)
	Nth    int    // fire at the Nth matching call (0-based) counted from arming
	Kind   string // error, drop (connection cut, no answer), INVALID, SYNCING, ACCEPTED, nilid, unknownid, delay
	Delay  time.Duration
	Sticky bool // fire on every matching call until cleared (robust against late, cancelled calls)
	seen   int
	Fired  bool
}

// ELFront is one validator's execution client endpoint.
type ELFront struct {
	B      *ELBackend
	Sock   string
	ln     net.Listener
	srv    *rpc.Server
	mu     sync.Mutex
	calls  []Call
	phase  string
	faults []*Fault
	// Next are the requests appended to every payload built until cleared.
	next *Requests
	// ExtraSys are additional transactions appended after the system txs in built payloads (user txs).
	UserTxs [][]byte
	// BlobGas, when set, is reported as blob gas used of built payloads.
	BlobGas uint64
	// ExcessBlob, when set, is reported as excess blob gas of built payloads (a chain whose execution genesis starts with a
	// non-zero excess keeps one while no blobs are used).
	ExcessBlob uint64
	// Jitter, when set, delays every engine call by a pseudo-random duration below it (moves the
	// engine goroutine before/after its sibling goroutine in the application).
	Jitter  time.Duration
	jitterN uint64
	conns   []net.Conn // accepted connections (closed by the "drop" fault: the call gets no answer at all)
}

// trackLn remembers accepted connections so that a fault can cut them.
type trackLn struct {
	net.Listener
	f *ELFront
}

func (t trackLn) Accept() (net.Conn, error) {
	c, err := t.Listener.Accept()
	if err == nil {
		t.f.mu.Lock()
		t.f.conns = append(t.f.conns, c)
		t.f.mu.Unlock()
	}
	return c, err
}

// dropConns closes every connection of the endpoint: pending calls fail on the client with a transport error, and the
// client dials again for its next call (caller holds f.mu).
func (f *ELFront) dropConns() {
	// not before the client has finished handing the request over: go-ethereum's rpc client does not fail a request
	// whose connection dies between its write and the bookkeeping of that write (dispatch skips the "in-flight" request
	// when it cancels pending ones), and a call without a deadline - every engine call outside proposal building - then
	// waits for ever. Observed as a hung ProcessProposal when the connection was cut within microseconds of the read; that
	// window belongs to the dependency and is not what the fault is meant to exercise.
	f.mu.Unlock()
	time.Sleep(30 * time.Millisecond)
	f.mu.Lock()
	for _, c := range f.conns {
		c.Close()
	}
	f.conns = nil
}

type engineAPI struct{ f *ELFront }

func NewELFront(b *ELBackend, sock string) (*ELFront, error) {
	f := &ELFront{B: b, Sock: sock}
	_ = os.Remove(sock)
	srv := rpc.NewServer()
	if err := srv.RegisterName("engine", &engineAPI{f}); err != nil {
		return nil, err
	}
	ln, err := net.Listen("unix", sock)
	if err != nil {
		return nil, err
	}
	f.ln, f.srv = ln, srv
	go srv.ServeListener(trackLn{ln, f})
	return f, nil
}

func (f *ELFront) Close() {
	if f.ln != nil {
		f.ln.Close()
	}
	if f.srv != nil {
		f.srv.Stop()
	}
	_ = os.Remove(f.Sock)
}

func (f *ELFront) SetPhase(p string) { f.mu.Lock(); f.phase = p; f.mu.Unlock() }
func (f *ELFront) SetNext(r *Requests) {
	f.mu.Lock()
	f.next = r
	f.mu.Unlock()
}
func (f *ELFront) AddFault(ft *Fault) { f.mu.Lock(); f.faults = append(f.faults, ft); f.mu.Unlock() }
func (f *ELFront) ClearFaults()       { f.mu.Lock(); f.faults = nil; f.mu.Unlock() }
func (f *ELFront) HasFaults() bool    { f.mu.Lock(); defer f.mu.Unlock(); return len(f.faults) > 0 }

// Calls returns a copy of the call log from index from.
func (f *ELFront) Calls(from int) []Call {
	f.mu.Lock()
	defer f.mu.Unlock()
	if from > len(f.calls) {
		from = len(f.calls)
	}
	return append([]Call(nil), f.calls[from:]...)
}
func (f *ELFront) NCalls() int { f.mu.Lock(); defer f.mu.Unlock(); return len(f.calls) }

func (f *ELFront) logCall(c Call) {
	c.Seq = len(f.calls)
	c.Phase = f.phase
	f.calls = append(f.calls, c)
}

func (f *ELFront) jitter() {
	f.mu.Lock()
	j := f.Jitter
	f.jitterN = f.jitterN*6364136223846793005 + 1442695040888963407
	n := f.jitterN >> 33
	f.mu.Unlock()
	if j > 0 {
		time.Sleep(time.Duration(n % uint64(j)))
	}
}

// fault returns the fault to apply to this call, if any (caller holds f.mu).
func (f *ELFront) fault(method string) *Fault {
	for _, ft := range f.faults {
		if ft.Method != method || (ft.Phase != "" && ft.Phase != f.phase) {
			continue
		}
		if ft.Sticky {
			ft.Fired = true
			return ft
		}
		if ft.Fired {
			continue
		}
		if ft.seen == ft.Nth {
			ft.Fired = true
			return ft
		}
		ft.seen++
	}
	return nil
}

var errInjected = errors.New("injected engine error")

func (a *engineAPI) GetChainConfig() (*params.ChainConfig, error) {
	return params.AllGoatDebugChainConfig, nil
}

func (a *engineAPI) ForkchoiceUpdatedV3(update engine.ForkchoiceStateV1, attr *engine.PayloadAttributes) (engine.ForkChoiceResponse, error) {
	f := a.f
	f.jitter()
	f.mu.Lock()
	method := "fcu"
	if attr != nil {
		method = "fcuAttr"
	}
	ft := f.fault(method)
	c := Call{Method: method, Head: update.HeadBlockHash, Safe: update.SafeBlockHash, Final: update.FinalizedBlockHash}
	c.Arg = fmt.Sprintf("head=%x safe=%x final=%x", update.HeadBlockHash[:6], update.SafeBlockHash[:6], update.FinalizedBlockHash[:6])
	if attr != nil {
		c.SysTxs = attr.GoatTxs
		c.Arg += fmt.Sprintf(" attr{recipient=%x nsys=%d beacon=%x}", attr.SuggestedFeeRecipient[:4], len(attr.GoatTxs), attr.BeaconRoot[:4])
	}
	resp := engine.ForkChoiceResponse{PayloadStatus: engine.PayloadStatusV1{Status: engine.VALID}}
	overrideStatus := ""
	if ft != nil {
		c.Result = "fault:" + ft.Kind
		f.logCall(c)
		f.mu.Unlock()
		switch ft.Kind {
		case "error":
			return resp, errInjected
		case "drop":
			f.mu.Lock()
			f.dropConns()
			f.mu.Unlock()
			return resp, errInjected
		case "INVALID", "SYNCING", "ACCEPTED":
			resp.PayloadStatus.Status = ft.Kind
			return resp, nil
		case "INVALID+id", "SYNCING+id", "ACCEPTED+id":
			// the status says no, yet a payload id comes along (an engine that answers the fork-choice part and the payload
			// part independently): the status decides, the id must not be used
			if attr == nil {
				resp.PayloadStatus.Status = strings.TrimSuffix(ft.Kind, "+id")
				return resp, nil
			}
			overrideStatus = strings.TrimSuffix(ft.Kind, "+id")
			f.mu.Lock()
		case "nilid":
			return resp, nil
		case "unknownid":
			id := engine.PayloadID{0xde, 0xad}
			resp.PayloadID = &id
			return resp, nil
		case "delay":
			time.Sleep(ft.Delay)
			f.mu.Lock()
		}
	}
	defer f.mu.Unlock()
	if attr == nil {
		c.Result = "VALID"
		if ft == nil {
			f.logCall(c)
		}
		return resp, nil
	}
	b := f.B
	b.mu.Lock()
	defer b.mu.Unlock()
	parent := b.blocks[update.HeadBlockHash]
	if parent == nil {
		c.Result = "SYNCING(unknown head)"
		if ft == nil {
			f.logCall(c)
		}
		resp.PayloadStatus.Status = engine.SYNCING
		return resp, nil
	}
	num := parent.Number + 1
	extra := make([]byte, params.GoatHeaderExtraLengthV0)
	extra[0] = byte(len(attr.GoatTxs))
	if len(attr.GoatTxs) > 0 {
		root := ethcrypto.Keccak256(bytes.Join(attr.GoatTxs, nil))
		copy(extra[1:], root)
	}
	txs := make([][]byte, 0, len(attr.GoatTxs)+len(f.UserTxs))
	txs = append(txs, attr.GoatTxs...)
	txs = append(txs, f.UserTxs...)
	reqs := f.next.Encode(num)
	blob := f.BlobGas
	zero := f.ExcessBlob
	ed := &engine.ExecutableData{
		ParentHash: update.HeadBlockHash, FeeRecipient: attr.SuggestedFeeRecipient, LogsBloom: make([]byte, 256),
		Random: attr.Random, Number: num, GasLimit: 30_000_000, Timestamp: attr.Timestamp, ExtraData: extra,
		BaseFeePerGas: big.NewInt(7), Transactions: txs, BlobGasUsed: &blob, ExcessBlobGas: &zero,
		Withdrawals: []*ethtypes.Withdrawal{},
	}
	var br common.Hash
	if attr.BeaconRoot != nil {
		br = *attr.BeaconRoot
	}
	ed.BlockHash = BlockHashOf(ed, br, reqs)
	b.nextID++
	var id engine.PayloadID
	binary.BigEndian.PutUint64(id[:], b.nextID)
	b.payloads[id] = &engine.ExecutionPayloadEnvelope{ExecutionPayload: ed, BlockValue: big.NewInt(0), Requests: reqs}
	resp.PayloadID = &id
	if overrideStatus != "" {
		resp.PayloadStatus.Status = overrideStatus
		if overrideStatus == engine.INVALID {
			msg := "injected"
			resp.PayloadStatus.ValidationError = &msg
		}
	}
	c.Result = fmt.Sprintf("VALID id=%x", id[:])
	c.Number = num
	if ft == nil {
		f.logCall(c)
	}
	return resp, nil
}

func (a *engineAPI) GetPayloadV4(id engine.PayloadID) (*engine.ExecutionPayloadEnvelope, error) {
	f := a.f
	f.jitter()
	f.mu.Lock()
	ft := f.fault("getPayload")
	c := Call{Method: "getPayload", Arg: hex.EncodeToString(id[:])}
	if ft != nil {
		c.Result = "fault:" + ft.Kind
		f.logCall(c)
		f.mu.Unlock()
		switch ft.Kind {
		case "delay":
			time.Sleep(ft.Delay)
			f.mu.Lock()
		case "drop":
			f.mu.Lock()
			f.dropConns()
			f.mu.Unlock()
			return nil, errInjected
		default:
			return nil, errInjected
		}
	}
	defer f.mu.Unlock()
	f.B.mu.Lock()
	p := f.B.payloads[id]
	f.B.mu.Unlock()
	if p == nil {
		c.Result = "unknown payload"
		if ft == nil {
			f.logCall(c)
		}
		return nil, errors.New("unknown payload")
	}
	c.Result = fmt.Sprintf("payload n=%d hash=%x", p.ExecutionPayload.Number, p.ExecutionPayload.BlockHash[:6])
	c.Number = p.ExecutionPayload.Number
	if ft == nil {
		f.logCall(c)
	}
	return p, nil
}

func (a *engineAPI) NewPayloadV4(ed engine.ExecutableData, hashes []common.Hash, beaconRoot *common.Hash, reqs []hexutil.Bytes) (engine.PayloadStatusV1, error) {
	f := a.f
	f.jitter()
	f.mu.Lock()
	ft := f.fault("newPayload")
	var br common.Hash
	if beaconRoot != nil {
		br = *beaconRoot
	}
	rr := make([][]byte, len(reqs))
	for i := range reqs {
		rr[i] = reqs[i]
	}
	c := Call{Method: "newPayload", Head: ed.BlockHash, Number: ed.Number}
	nsys := 0
	if len(ed.ExtraData) > 0 {
		nsys = int(ed.ExtraData[0])
	}
	if nsys <= len(ed.Transactions) {
		c.SysTxs = ed.Transactions[:nsys]
	}
	c.Arg = fmt.Sprintf("n=%d hash=%x parent=%x nsys=%d ntx=%d nreq=%d beacon=%x", ed.Number, ed.BlockHash[:6], ed.ParentHash[:6], nsys, len(ed.Transactions), len(rr), br[:4])
	st := engine.PayloadStatusV1{Status: engine.VALID}
	if ft != nil {
		c.Result = "fault:" + ft.Kind
		f.logCall(c)
		f.mu.Unlock()
		switch ft.Kind {
		case "error":
			return st, errInjected
		case "drop":
			f.mu.Lock()
			f.dropConns()
			f.mu.Unlock()
			return st, errInjected
		case "INVALID", "SYNCING", "ACCEPTED":
			st.Status = ft.Kind
			return st, nil
		case "delay":
			time.Sleep(ft.Delay)
			f.mu.Lock()
		default:
			return st, errInjected
		}
	}
	defer f.mu.Unlock()
	// a real execution client first rebuilds the header from the fields it was given and compares the hash - also for a
	// block it already has (only the genesis block, whose hash the fake client did not derive from fields, is exempt)
	if ed.BlockHash != f.B.Genesis && BlockHashOf(&ed, br, rr) != ed.BlockHash {
		msg := "blockhash mismatch"
		st.Status, st.ValidationError = engine.INVALID, &msg
		c.Result = "INVALID(hash)"
		if ft == nil {
			f.logCall(c)
		}
		return st, nil
	}
	// a block the client already has (the genesis block after a failed first block message, or the
	// unchanged head that is re-announced when a block message failed) is simply VALID
	f.B.mu.Lock()
	known, isKnown := f.B.blocks[ed.BlockHash]
	f.B.mu.Unlock()
	if isKnown && known.Number == ed.Number {
		c.Result = "VALID(known)"
		if ft == nil {
			f.logCall(c)
		}
		return st, nil
	}
	f.B.mu.Lock()
	if _, ok := f.B.blocks[ed.ParentHash]; !ok {
		f.B.mu.Unlock()
		st.Status = engine.SYNCING
		c.Result = "SYNCING(unknown parent)"
		if ft == nil {
			f.logCall(c)
		}
		return st, nil
	}
	cp := ed
	f.B.blocks[ed.BlockHash] = &cp
	f.B.mu.Unlock()
	c.Result = "VALID"
	if ft == nil {
		f.logCall(c)
	}
	return st, nil
}

// Envelope returns a stored payload (for building altered proposals).
func (b *ELBackend) Envelope(id engine.PayloadID) *engine.ExecutionPayloadEnvelope {
	b.mu.Lock()
	defer b.mu.Unlock()
	return b.payloads[id]
}

// KnowBlock registers a block as known (used when hand-built payloads should chain).
func (b *ELBackend) KnowBlock(ed *engine.ExecutableData) {
	b.mu.Lock()
	cp := *ed
	b.blocks[ed.BlockHash] = &cp
	b.mu.Unlock()
}

func (c Call) MarshalJSON() ([]byte, error) {
	return json.Marshal(map[string]any{"m": c.Method, "ph": c.Phase, "arg": c.Arg, "res": c.Result})
}
