package world

import (
	"encoding/json"
	"fmt"
	"time"

	abci "github.com/cometbft/cometbft/abci/types"
	cmttypes "github.com/cometbft/cometbft/types"
	servertypes "github.com/cosmos/cosmos-sdk/server/types"
)

// Export is ExportAppStateAndValidators of the node's committed state.
func (n *Node) Export() (servertypes.ExportedApp, error) {
	if n.App.LastBlockHeight() == 0 {
		return servertypes.ExportedApp{}, fmt.Errorf("nothing is committed yet")
	}
	return n.App.ExportAppStateAndValidators(false, nil, nil)
}

// SnapFromExport parses an export into a snapshot (no store hashes).
func (w *World) SnapFromExport(exp servertypes.ExportedApp) (*Snap, error) {
	s := &Snap{Height: exp.Height - 1, Stores: map[string]string{}, Export: exp.AppState, ExpVals: exp.Validators, ExpHeight: exp.Height}
	if err := json.Unmarshal(exp.AppState, &s.RawJSON); err != nil {
		return nil, err
	}
	cdc := w.cdc
	if err := cdc.UnmarshalJSON(s.RawJSON["locking"], &s.Locking); err != nil {
		return nil, err
	}
	if err := cdc.UnmarshalJSON(s.RawJSON["relayer"], &s.Relayer); err != nil {
		return nil, err
	}
	if err := cdc.UnmarshalJSON(s.RawJSON["bitcoin"], &s.Bitcoin); err != nil {
		return nil, err
	}
	if err := cdc.UnmarshalJSON(s.RawJSON["goat"], &s.Goat); err != nil {
		return nil, err
	}
	if raw, ok := s.RawJSON["auth"]; ok {
		if err := cdc.UnmarshalJSON(raw, &s.Auth); err != nil {
			return nil, err
		}
	}
	return s, nil
}

// InitFromExport initialises a fresh node from an export exactly as CometBFT would start a new
// chain from the exported genesis: initial height = exported height, validators = exported validators.
func (n *Node) InitFromExport(exp servertypes.ExportedApp, t time.Time) (resp *abci.ResponseInitChain, err error) {
	defer func() {
		if r := recover(); r != nil {
			err = fmt.Errorf("panic in InitChain: %v", r)
		}
	}()
	var vals []abci.ValidatorUpdate
	for _, v := range exp.Validators {
		vals = append(vals, cmttypes.TM2PB.ValidatorUpdate(cmttypes.NewValidator(v.PubKey, v.Power)))
	}
	cp := exp.ConsensusParams
	return n.App.InitChain(&abci.RequestInitChain{Time: t, ChainId: n.W.Cfg.ChainID, ConsensusParams: &cp, Validators: vals, AppStateBytes: exp.AppState, InitialHeight: exp.Height})
}

// PendingExport exports module genesis from the state InitChain has prepared but not yet committed.
func (n *Node) PendingExport() (out map[string]json.RawMessage, err error) {
	defer func() {
		if r := recover(); r != nil {
			err = fmt.Errorf("panic in ExportGenesis: %v", r)
		}
	}()
	ctx := n.App.BaseApp.NewContext(false)
	return n.App.ModuleManager.ExportGenesisForModules(ctx, n.App.AppCodec(), nil)
}

// ChainFromExport builds a driver for a node that was initialised from an export.
func ChainFromExport(w *World, n *Node, exp servertypes.ExportedApp, now time.Time) *Chain {
	var vs []*cmttypes.Validator
	for _, v := range exp.Validators {
		vs = append(vs, cmttypes.NewValidator(v.PubKey, v.Power))
	}
	c := &Chain{W: w, Nodes: []*Node{n}, Height: exp.Height - 1, Now: now, Step0: 3 * time.Second}
	c.Vals = cmttypes.NewValidatorSet(vs)
	c.NextVals = c.Vals.CopyIncrementProposerPriority(1)
	return c
}
