package world

import (
	"context"
	"encoding/json"
	"fmt"
	"os"
	"sort"
	"sync"
	"sync/atomic"
	"syscall"
	"time"

	abci "github.com/cometbft/cometbft/abci/types"
	cmtproto "github.com/cometbft/cometbft/proto/tendermint/types"
	dbm "github.com/cosmos/cosmos-db"
)

// Recording is a history of finalised blocks that can be re-executed elsewhere:
// in another node, another process, another build.
type Recording struct {
	Seed     uint64    `json:"seed"`
	Label    string    `json:"label"`
	ChainID  string    `json:"chain_id"`
	GenTime  time.Time `json:"gen_time"`
	GenState []byte    `json:"gen_state"`
	Cons     []byte    `json:"cons_params"` // proto
	Blocks   [][]byte  `json:"blocks"`      // proto RequestFinalizeBlock
	Hot      []int64   `json:"hot"`         // heights to re-execute many times
}

// Outcome is everything C07 compares for one height.
type Outcome struct {
	Height  int64    `json:"h"`
	AppHash string   `json:"app_hash"`
	Txs     []string `json:"txs"`     // code/codespace/data/gas wanted/gas used
	Updates []string `json:"updates"` // sorted: a set
	Calls   []string `json:"calls"`   // engine calls during FinalizeBlock: method + argument digest
	Err     string   `json:"err,omitempty"`
	Repeat  int      `json:"repeat,omitempty"`
}

func (o Outcome) Key() string {
	b, _ := json.Marshal([]any{o.AppHash, o.Txs, o.Updates, o.Calls, o.Err})
	return string(b)
}

// Recording captures the chain's history so far.
func (c *Chain) Recording(hot []int64) (*Recording, error) {
	cons, err := c.W.ConsParams.Marshal()
	if err != nil {
		return nil, err
	}
	r := &Recording{Seed: c.W.Cfg.Seed, Label: c.W.Cfg.Label, ChainID: c.W.Cfg.ChainID, GenTime: c.W.Cfg.GenTime, GenState: c.W.GenState, Cons: cons, Hot: hot}
	for _, b := range c.Blocks {
		bz, err := b.Req.Marshal()
		if err != nil {
			return nil, err
		}
		r.Blocks = append(r.Blocks, bz)
	}
	return r, nil
}

func (r *Recording) Save(path string) error {
	bz, err := json.Marshal(r)
	if err != nil {
		return err
	}
	return os.WriteFile(path, bz, 0o644)
}

func LoadRecording(path string) (*Recording, error) {
	bz, err := os.ReadFile(path)
	if err != nil {
		return nil, err
	}
	var r Recording
	return &r, json.Unmarshal(bz, &r)
}

// OutcomeOf renders a FinalizeBlock response.
func OutcomeOf(h int64, fb *abci.ResponseFinalizeBlock, calls []Call, err error) Outcome {
	o := Outcome{Height: h}
	if err != nil {
		o.Err = err.Error()
		if len(o.Err) > 200 {
			o.Err = o.Err[:200]
		}
		return o
	}
	o.AppHash = fmt.Sprintf("%x", fb.AppHash)
	for _, t := range fb.TxResults {
		o.Txs = append(o.Txs, fmt.Sprintf("code=%d space=%s data=%x gw=%d gu=%d", t.Code, t.Codespace, t.Data, t.GasWanted, t.GasUsed))
	}
	for _, u := range fb.ValidatorUpdates {
		o.Updates = append(o.Updates, fmt.Sprintf("%x:%d", u.PubKey.GetSecp256K1(), u.Power))
	}
	sort.Strings(o.Updates)
	for _, c := range calls {
		o.Calls = append(o.Calls, c.Method+" "+c.Arg)
	}
	return o
}

// worldFromRecording rebuilds a world that can host replicas of the recorded chain.
func worldFromRecording(r *Recording, disk bool) (*World, error) {
	w, err := New(Config{Seed: r.Seed, Label: r.Label, ChainID: r.ChainID, GenTime: r.GenTime, DiskDB: disk})
	if err != nil {
		return nil, err
	}
	w.GenState = r.GenState
	var cp cmtproto.ConsensusParams
	if err := cp.Unmarshal(r.Cons); err != nil {
		return nil, err
	}
	w.ConsParams = cp
	return w, nil
}

// Replay re-executes a recording on a fresh node.
//
//	mode "fresh":   one node, every block finalised and committed once
//	mode "restart": goleveldb node, closed and reopened from disk before every block
//	mode "twice":   every block is finalised, the node crashes before Commit (object dropped, DB
//	                reopened), and the block is finalised again and committed; hot heights go
//	                through 16 such crash/re-execution rounds
func Replay(r *Recording, mode string) ([]Outcome, error) {
	w, err := worldFromRecording(r, mode == "restart")
	if err != nil {
		return nil, err
	}
	defer w.Cleanup()
	n, err := w.StartNode(0)
	if err != nil {
		return nil, err
	}
	defer func() { n.Close() }()
	hot := map[int64]bool{}
	for _, h := range r.Hot {
		hot[h] = true
	}
	var out []Outcome
	for bi, bz := range r.Blocks {
		var req abci.RequestFinalizeBlock
		if err := req.Unmarshal(bz); err != nil {
			return out, err
		}
		if mode == "restart" {
			nn, err := n.Restart()
			if err != nil {
				return out, fmt.Errorf("restart before height %d: %w", req.Height, err)
			}
			n = nn
			if err := n.reinitIfEmpty(); err != nil {
				return out, err
			}
		}
		if mode == "twice" {
			rounds := 1
			if hot[req.Height] {
				rounds = 16
			}
			for k := 0; k < rounds; k++ {
				n.EL.SetPhase("finalize")
				from := n.EL.NCalls()
				fb, ferr := n.Finalize(&req)
				o := OutcomeOf(req.Height, fb, n.EL.Calls(from), ferr)
				o.Repeat = k + 1
				out = append(out, o)
				// crash before Commit: nothing of this execution may survive
				nn, err := n.Restart()
				if err != nil {
					return out, fmt.Errorf("reopen after uncommitted height %d: %w", req.Height, err)
				}
				n = nn
				if err := n.reinitIfEmpty(); err != nil {
					return out, err
				}
				if got := n.App.LastBlockHeight(); got != req.Height-1 {
					o := Outcome{Height: req.Height, Err: fmt.Sprintf("after a crash before Commit the node reports height %d, want %d", got, req.Height-1)}
					out = append(out, o)
				}
			}
		}
		var busy *busyLoad
		if mode == "busy" {
			var next [][]byte
			if bi+1 < len(r.Blocks) {
				var nr abci.RequestFinalizeBlock
				if nr.Unmarshal(r.Blocks[bi+1]) == nil {
					next = nr.Txs
				}
			}
			busy = startBusyLoad(n, req.Txs, next, req.Height%2 == 0)
			if req.Height%2 == 1 && len(req.Txs) > 1 {
				// workload shaping, not a verdict: give the simulation callers a head start so that they are past the first
				// transactions when block execution begins (a sleep, unlike waiting for a signal of theirs, orders nothing)
				time.Sleep(time.Duration(10*min(len(req.Txs), 6)) * time.Millisecond)
			}
		}
		n.EL.SetPhase("finalize")
		from := n.EL.NCalls()
		fb, ferr := n.Finalize(&req)
		out = append(out, OutcomeOf(req.Height, fb, n.EL.Calls(from), ferr))
		if busy != nil {
			busy.stopTxs() // CometBFT locks the mempool and drains its connection before Commit
		}
		if ferr != nil {
			if busy != nil {
				busy.stopAll()
			}
			return out, nil
		}
		if _, err := n.App.Commit(); err != nil {
			if busy != nil {
				busy.stopAll()
			}
			return out, err
		}
		if busy != nil {
			busy.stopAll()
			BusyStats.Add(busy)
		}
	}
	return out, nil
}

// busyLoad is what a live node does next to block execution: the mempool connection checks transactions, the gRPC
// server simulates transactions and answers queries - on other goroutines, while FinalizeBlock runs on the consensus
// connection (queries also during Commit). None of it may influence the block's outcome.
type busyLoad struct {
	txStop, qStop     chan struct{}
	txWG, qWG         sync.WaitGroup
	checks, sims, qs  atomic.Int64
	simsOK            atomic.Int64
	txStopped, qEnded bool
}

type busyStats struct{ Checks, Sims, SimsOK, Queries atomic.Int64 }

func (b *busyStats) Add(l *busyLoad) {
	b.Checks.Add(l.checks.Load())
	b.Sims.Add(l.sims.Load())
	b.SimsOK.Add(l.simsOK.Load())
	b.Queries.Add(l.qs.Load())
}

// BusyStats counts what the busy replica did next to block execution (reported by the replica process).
var BusyStats busyStats

func startBusyLoad(n *Node, cur, next [][]byte, checkTx bool) *busyLoad {
	b := &busyLoad{txStop: make(chan struct{}), qStop: make(chan struct{})}
	var txs [][]byte
	txs = append(txs, cur...)
	txs = append(txs, next...)
	app := n.App
	loop := func(wg *sync.WaitGroup, stop chan struct{}, f func(i int)) {
		wg.Add(1)
		go func() {
			defer wg.Done()
			for i := 0; ; i++ {
				select {
				case <-stop:
					return
				default:
				}
				f(i)
			}
		}()
	}
	// CheckTx moves the check state's account sequences, after which a simulation of the same sender's transaction stops at
	// the sequence check; so that simulated handlers really run next to the block's, blocks alternate between a mempool
	// load (even heights) and a simulation load (odd heights)
	if len(txs) > 0 && checkTx {
		// the mempool connection: one CheckTx at a time
		loop(&b.txWG, b.txStop, func(i int) {
			_, _ = app.CheckTx(&abci.RequestCheckTx{Tx: txs[i%len(txs)], Type: abci.CheckTxType_New})
			b.checks.Add(1)
		})
	}
	if len(txs) > 0 && !checkTx {
		// gRPC simulations: one caller (two callers would race with each other on anything shared, and the race detector
		// reports a memory location once: the report would then not involve block execution). It walks through this block's transactions in order - simulate one, then
		// let the mempool connection admit it, which moves the check state's sequence to what the next one carries - so that
		// every transaction's handler runs once next to the block's; afterwards everything is
		// simulated round-robin (the block message, whose sender's sequence is current, always reaches its handler)
		sim := func(tx []byte) {
			func() {
				defer func() { _ = recover() }()
				if _, _, err := app.Simulate(tx); err == nil {
					b.simsOK.Add(1)
				}
			}()
			b.sims.Add(1)
		}
		walked := 0
		loop(&b.txWG, b.txStop, func(i int) {
			if walked < len(cur) {
				tx := cur[walked]
				walked++
				sim(tx)
				if walked > 1 { // not the block message: it is never in a mempool
					_, _ = app.CheckTx(&abci.RequestCheckTx{Tx: tx, Type: abci.CheckTxType_New})
					b.checks.Add(1)
				}
				return
			}
			sim(txs[i%len(txs)])
		})
	}
	paths := []string{"/goat.relayer.v1.Query/Relayer", "/goat.goat.v1.Query/EthBlockTip", "/goat.bitcoin.v1.Query/Params", "/goat.bitcoin.v1.Query/BlockTip", "/goat.relayer.v1.Query/Pubkeys", "/goat.locking.v1.Query/Params"}
	loop(&b.qWG, b.qStop, func(i int) {
		func() {
			defer func() { _ = recover() }()
			_, _ = app.Query(context.Background(), &abci.RequestQuery{Path: paths[i%len(paths)]})
		}()
		b.qs.Add(1)
	})
	return b
}

func (b *busyLoad) stopTxs() {
	if !b.txStopped {
		b.txStopped = true
		close(b.txStop)
		b.txWG.Wait()
	}
}

func (b *busyLoad) stopAll() {
	b.stopTxs()
	if !b.qEnded {
		b.qEnded = true
		close(b.qStop)
		b.qWG.Wait()
	}
}

// reinitIfEmpty does what CometBFT's handshake does when the application reports height 0 after a
// restart: it sends InitChain again (nothing of the genesis is persisted before the first Commit).
func (n *Node) reinitIfEmpty() error {
	if n.App.LastBlockHeight() != 0 {
		return nil
	}
	_, err := n.InitChain()
	return err
}

// KillPoint is a crash point of the kill-mode replica: the process sends itself SIGKILL there.
//
//	phase "before": right before FinalizeBlock of Height
//	phase "after":  after FinalizeBlock returned, before Commit is called
//	phase "during": DelayUS microseconds after Commit was called (the store may be half written)
//	phase "done":   right after Commit returned
type KillPoint struct {
	Height  int64  `json:"h"`
	Phase   string `json:"phase"`
	DelayUS int    `json:"delay_us"`
}

// KillLine is one line of the kill-mode replica's log (appended before the step it announces is taken).
type KillLine struct {
	Kind    string   `json:"kind"` // start | outcome | committed | end
	Height  int64    `json:"h"`
	Outcome *Outcome `json:"outcome,omitempty"`
	Err     string   `json:"err,omitempty"`
}

func killSelf() {
	_ = syscall.Kill(os.Getpid(), syscall.SIGKILL)
	time.Sleep(time.Minute) // never returns: the signal is delivered first
}

// ReplayKill continues the recorded history on the goleveldb database in dbDir (created when missing) from whatever
// height the database holds, appends what it observes to logFile, and kills its own process with SIGKILL at kp
// (nil: run to the end). The execution client of a restarted node still knows the blocks it was given before.
func ReplayKill(r *Recording, dbDir, logFile string, kp *KillPoint) error {
	w, err := worldFromRecording(r, true)
	if err != nil {
		return err
	}
	lf, err := os.OpenFile(logFile, os.O_APPEND|os.O_CREATE|os.O_WRONLY, 0o644)
	if err != nil {
		return err
	}
	defer lf.Close()
	emit := func(l KillLine) {
		bz, _ := json.Marshal(l)
		lf.Write(append(bz, '\n'))
	}
	db, err := dbm.NewGoLevelDB("application", dbDir, nil)
	if err != nil {
		emit(KillLine{Kind: "end", Err: "open database: " + err.Error()})
		return err
	}
	n, err := w.OpenNode(0, db, dbDir)
	if err != nil {
		emit(KillLine{Kind: "end", Err: "open node: " + err.Error()})
		return err
	}
	if err := n.reinitIfEmpty(); err != nil {
		emit(KillLine{Kind: "end", Err: "init chain: " + err.Error()})
		return err
	}
	last := n.App.LastBlockHeight()
	emit(KillLine{Kind: "start", Height: last})
	for _, bz := range r.Blocks {
		var req abci.RequestFinalizeBlock
		if err := req.Unmarshal(bz); err != nil {
			return err
		}
		if req.Height <= last {
			// the execution client kept what it had been given before the crash
			if p := DecodeBlockTx(w, req.Txs); p != nil {
				w.EL.KnowBlock(PayloadED(p))
			}
			continue
		}
		here := kp != nil && kp.Height == req.Height
		if here && kp.Phase == "before" {
			killSelf()
		}
		n.EL.SetPhase("finalize")
		from := n.EL.NCalls()
		fb, ferr := n.Finalize(&req)
		o := OutcomeOf(req.Height, fb, n.EL.Calls(from), ferr)
		emit(KillLine{Kind: "outcome", Height: req.Height, Outcome: &o})
		if ferr != nil {
			emit(KillLine{Kind: "end", Height: req.Height})
			return nil
		}
		if here && kp.Phase == "after" {
			killSelf()
		}
		if here && kp.Phase == "during" {
			time.AfterFunc(time.Duration(kp.DelayUS)*time.Microsecond, func() { _ = syscall.Kill(os.Getpid(), syscall.SIGKILL) })
		}
		if _, err := n.App.Commit(); err != nil {
			emit(KillLine{Kind: "end", Height: req.Height, Err: "commit: " + err.Error()})
			return err
		}
		emit(KillLine{Kind: "committed", Height: req.Height})
		if here && kp.Phase == "done" {
			killSelf()
		}
		if here && kp.Phase == "during" {
			// the timer has not fired although Commit returned: wait for it, so that every planned point is a crash
			time.Sleep(time.Duration(kp.DelayUS)*time.Microsecond + 50*time.Millisecond)
		}
	}
	emit(KillLine{Kind: "end", Height: n.App.LastBlockHeight()})
	return nil
}
