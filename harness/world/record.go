package world

import (
	"encoding/json"
	"fmt"
	"os"
	"sort"
	"time"

	abci "github.com/cometbft/cometbft/abci/types"
	cmtproto "github.com/cometbft/cometbft/proto/tendermint/types"
)

// Recording is a history of finalised blocks that can be re-executed elsewhere:
// in another node, another process, another build.
type Recording struct {
	Seed     uint64    `json:"seed"`
	Label    string    `json:"label"`
	ChainID  string    `json:"chain_id"`
	GenTime  time.Time `json:"gen_time"`
	GenState []byte    `json:"gen_state"`
	Cons     []byte    `json:"cons_params"` // proto
	Blocks   [][]byte  `json:"blocks"`      // proto RequestFinalizeBlock
	Hot      []int64   `json:"hot"`         // heights to re-execute many times
}

// Outcome is everything C07 compares for one height.
type Outcome struct {
	Height  int64    `json:"h"`
	AppHash string   `json:"app_hash"`
	Txs     []string `json:"txs"`     // code/codespace/data/gas wanted/gas used
	Updates []string `json:"updates"` // sorted: a set
	Calls   []string `json:"calls"`   // engine calls during FinalizeBlock: method + argument digest
	Err     string   `json:"err,omitempty"`
	Repeat  int      `json:"repeat,omitempty"`
}

func (o Outcome) Key() string {
	b, _ := json.Marshal([]any{o.AppHash, o.Txs, o.Updates, o.Calls, o.Err})
	return string(b)
}

// Recording captures the chain's history so far.
func (c *Chain) Recording(hot []int64) (*Recording, error) {
	cons, err := c.W.ConsParams.Marshal()
	if err != nil {
		return nil, err
	}
	r := &Recording{Seed: c.W.Cfg.Seed, Label: c.W.Cfg.Label, ChainID: c.W.Cfg.ChainID, GenTime: c.W.Cfg.GenTime, GenState: c.W.GenState, Cons: cons, Hot: hot}
	for _, b := range c.Blocks {
		bz, err := b.Req.Marshal()
		if err != nil {
			return nil, err
		}
		r.Blocks = append(r.Blocks, bz)
	}
	return r, nil
}

func (r *Recording) Save(path string) error {
	bz, err := json.Marshal(r)
	if err != nil {
		return err
	}
	return os.WriteFile(path, bz, 0o644)
}

func LoadRecording(path string) (*Recording, error) {
	bz, err := os.ReadFile(path)
	if err != nil {
		return nil, err
	}
	var r Recording
	return &r, json.Unmarshal(bz, &r)
}

// OutcomeOf renders a FinalizeBlock response.
func OutcomeOf(h int64, fb *abci.ResponseFinalizeBlock, calls []Call, err error) Outcome {
	o := Outcome{Height: h}
	if err != nil {
		o.Err = err.Error()
		if len(o.Err) > 200 {
			o.Err = o.Err[:200]
		}
		return o
	}
	o.AppHash = fmt.Sprintf("%x", fb.AppHash)
	for _, t := range fb.TxResults {
		o.Txs = append(o.Txs, fmt.Sprintf("code=%d space=%s data=%x gw=%d gu=%d", t.Code, t.Codespace, t.Data, t.GasWanted, t.GasUsed))
	}
	for _, u := range fb.ValidatorUpdates {
		o.Updates = append(o.Updates, fmt.Sprintf("%x:%d", u.PubKey.GetSecp256K1(), u.Power))
	}
	sort.Strings(o.Updates)
	for _, c := range calls {
		o.Calls = append(o.Calls, c.Method+" "+c.Arg)
	}
	return o
}

// worldFromRecording rebuilds a world that can host replicas of the recorded chain.
func worldFromRecording(r *Recording, disk bool) (*World, error) {
	w, err := New(Config{Seed: r.Seed, Label: r.Label, ChainID: r.ChainID, GenTime: r.GenTime, DiskDB: disk})
	if err != nil {
		return nil, err
	}
	w.GenState = r.GenState
	var cp cmtproto.ConsensusParams
	if err := cp.Unmarshal(r.Cons); err != nil {
		return nil, err
	}
	w.ConsParams = cp
	return w, nil
}

// Replay re-executes a recording on a fresh node.
//
//	mode "fresh":   one node, every block finalised and committed once
//	mode "restart": goleveldb node, closed and reopened from disk before every block
//	mode "twice":   every block is finalised, the node crashes before Commit (object dropped, DB
//	                reopened), and the block is finalised again and committed; hot heights go
//	                through 16 such crash/re-execution rounds
func Replay(r *Recording, mode string) ([]Outcome, error) {
	w, err := worldFromRecording(r, mode == "restart")
	if err != nil {
		return nil, err
	}
	defer w.Cleanup()
	n, err := w.StartNode(0)
	if err != nil {
		return nil, err
	}
	defer func() { n.Close() }()
	hot := map[int64]bool{}
	for _, h := range r.Hot {
		hot[h] = true
	}
	var out []Outcome
	for _, bz := range r.Blocks {
		var req abci.RequestFinalizeBlock
		if err := req.Unmarshal(bz); err != nil {
			return out, err
		}
		if mode == "restart" {
			nn, err := n.Restart()
			if err != nil {
				return out, fmt.Errorf("restart before height %d: %w", req.Height, err)
			}
			n = nn
			if err := n.reinitIfEmpty(); err != nil {
				return out, err
			}
		}
		if mode == "twice" {
			rounds := 1
			if hot[req.Height] {
				rounds = 16
			}
			for k := 0; k < rounds; k++ {
				n.EL.SetPhase("finalize")
				from := n.EL.NCalls()
				fb, ferr := n.Finalize(&req)
				o := OutcomeOf(req.Height, fb, n.EL.Calls(from), ferr)
				o.Repeat = k + 1
				out = append(out, o)
				// crash before Commit: nothing of this execution may survive
				nn, err := n.Restart()
				if err != nil {
					return out, fmt.Errorf("reopen after uncommitted height %d: %w", req.Height, err)
				}
				n = nn
				if err := n.reinitIfEmpty(); err != nil {
					return out, err
				}
				if got := n.App.LastBlockHeight(); got != req.Height-1 {
					o := Outcome{Height: req.Height, Err: fmt.Sprintf("after a crash before Commit the node reports height %d, want %d", got, req.Height-1)}
					out = append(out, o)
				}
			}
		}
		n.EL.SetPhase("finalize")
		from := n.EL.NCalls()
		fb, ferr := n.Finalize(&req)
		out = append(out, OutcomeOf(req.Height, fb, n.EL.Calls(from), ferr))
		if ferr != nil {
			return out, nil
		}
		if _, err := n.App.Commit(); err != nil {
			return out, err
		}
	}
	return out, nil
}

// reinitIfEmpty does what CometBFT's handshake does when the application reports height 0 after a
// restart: it sends InitChain again (nothing of the genesis is persisted before the first Commit).
func (n *Node) reinitIfEmpty() error {
	if n.App.LastBlockHeight() != 0 {
		return nil
	}
	_, err := n.InitChain()
	return err
}
