package world

import (
	"testing"
)

func TestSmoke(t *testing.T) {
	w, err := New(Config{Seed: 1, NVals: 3, NRelayers: 4})
	if err != nil {
		t.Fatal(err)
	}
	c, err := NewChain(w)
	if err != nil {
		t.Fatal(err)
	}
	defer c.Close()
	for i := 0; i < 4; i++ {
		b, err := c.Step(StepOpts{})
		if err != nil {
			t.Fatal(err)
		}
		t.Logf("h=%d ok=%v code=%d log=%q calls=%v", b.Height, b.BlockOK, b.Resp.TxResults[0].Code, b.Resp.TxResults[0].Log, b.ELCalls)
	}
	s, err := c.Node().Snapshot()
	if err != nil {
		t.Fatal(err)
	}
	t.Logf("stores=%v pool=%+v", s.Stores, s.Locking.RewardPool)
	g, err := c.Group()
	if err != nil {
		t.Fatal(err)
	}
	t.Logf("group: epoch=%d seq=%d proposer=%s voters=%d", g.Epoch, g.Seq, g.Proposer.AddrStr, len(g.Voters))
	num, seq, ok := c.Account(g.Proposer.Addr)
	t.Logf("acct %d %d %v", num, seq, ok)
	num, seq, ok = c.Account(w.Vals[0].Cons)
	t.Logf("val acct %d %d %v", num, seq, ok)
}
