package world

import (
	"bytes"
	"crypto/sha256"
	"encoding/binary"

	"github.com/btcsuite/btcd/btcec/v2"
	"github.com/btcsuite/btcd/btcec/v2/schnorr"
	"github.com/btcsuite/btcd/btcutil"
	"github.com/btcsuite/btcd/chaincfg"
	"github.com/btcsuite/btcd/chaincfg/chainhash"
	"github.com/btcsuite/btcd/txscript"
	"github.com/btcsuite/btcd/wire"
	relayertypes "github.com/goatnetwork/goat/x/relayer/types"
)

// DSha is Bitcoin's double SHA-256, implemented with the standard library only
// (independent of pkg/crypto, which is part of the code under test).
func DSha(b []byte) []byte {
	h1 := sha256.Sum256(b)
	h2 := sha256.Sum256(h1[:])
	return h2[:]
}

// BtcPubKey derives the relayer Bitcoin public key from a 32-byte secret.
func BtcPubKey(secret []byte, schnorrKey bool) *relayertypes.PublicKey {
	_, pub := btcec.PrivKeyFromBytes(secret)
	if schnorrKey {
		return &relayertypes.PublicKey{Key: &relayertypes.PublicKey_Schnorr{Schnorr: schnorr.SerializePubKey(pub)}}
	}
	return &relayertypes.PublicKey{Key: &relayertypes.PublicKey_Secp256K1{Secp256K1: pub.SerializeCompressed()}}
}

// NoWitness serialises a transaction without witness data.
func NoWitness(tx *wire.MsgTx) []byte {
	var buf bytes.Buffer
	if err := tx.SerializeNoWitness(&buf); err != nil {
		panic(err)
	}
	return buf.Bytes()
}

// MerkleTree is an independent Bitcoin merkle tree (duplicate-last rule).
type MerkleTree struct {
	Levels [][][]byte // Levels[0] = leaves (possibly padded), last = [root]
	N      int
}

func NewMerkleTree(leaves [][]byte) *MerkleTree {
	t := &MerkleTree{N: len(leaves)}
	level := append([][]byte(nil), leaves...)
	for {
		if len(level) > 1 && len(level)%2 == 1 {
			level = append(level, level[len(level)-1])
		}
		t.Levels = append(t.Levels, level)
		if len(level) == 1 {
			break
		}
		var next [][]byte
		for i := 0; i < len(level); i += 2 {
			next = append(next, DSha(append(append([]byte{}, level[i]...), level[i+1]...)))
		}
		level = next
	}
	return t
}

func (t *MerkleTree) Root() []byte { return t.Levels[len(t.Levels)-1][0] }
func (t *MerkleTree) Depth() int   { return len(t.Levels) - 1 }

// Proof returns the concatenated sibling hashes for leaf i.
func (t *MerkleTree) Proof(i int) []byte {
	var p []byte
	idx := i
	for l := 0; l < len(t.Levels)-1; l++ {
		p = append(p, t.Levels[l][idx^1]...)
		idx /= 2
	}
	return p
}

// BtcBlock is a synthetic Bitcoin block with ground truth.
type BtcBlock struct {
	Height uint64
	Txs    []*wire.MsgTx
	Raw    [][]byte // no-witness serialisations
	Txids  [][]byte // internal byte order
	Tree   *MerkleTree
	Header []byte
	Hash   []byte // internal byte order
}

// BtcChain is the simulated Bitcoin chain (the generator's ground truth).
type BtcChain struct {
	Blocks map[uint64]*BtcBlock
	Tip    uint64
	prev   []byte
	ctr    uint32
}

func NewBtcChain() *BtcChain {
	g, _ := chainhash.NewHashFromStr("0f9188f13cb7b2c71f2a335e3a4fc328bf5beb436012afca590b1a11466e2206")
	return &BtcChain{Blocks: map[uint64]*BtcBlock{}, prev: g[:]}
}

func BtcHeader(prev, root []byte, nonce uint32) []byte {
	h := make([]byte, 80)
	binary.LittleEndian.PutUint32(h[0:], 2)
	copy(h[4:36], prev)
	copy(h[36:68], root)
	binary.LittleEndian.PutUint32(h[68:], 1_700_000_000+nonce)
	binary.LittleEndian.PutUint32(h[72:], 0x207fffff)
	binary.LittleEndian.PutUint32(h[76:], nonce)
	return h
}

// FillerTx builds a unique transaction with the given outputs (a default output if none).
func (c *BtcChain) FillerTx(outs ...*wire.TxOut) *wire.MsgTx {
	c.ctr++
	tx := wire.NewMsgTx(2)
	var prev chainhash.Hash
	binary.LittleEndian.PutUint32(prev[:], c.ctr)
	prev[31] = 0x77
	tx.AddTxIn(wire.NewTxIn(&wire.OutPoint{Hash: prev, Index: 0}, nil, nil))
	if len(outs) == 0 {
		outs = []*wire.TxOut{wire.NewTxOut(5000, append([]byte{0, 20}, make([]byte, 20)...))}
	}
	for _, o := range outs {
		tx.AddTxOut(o)
	}
	return tx
}

// CoinbaseTx builds a coinbase-shaped first transaction with the given outputs.
func (c *BtcChain) CoinbaseTx(height uint64, outs ...*wire.TxOut) *wire.MsgTx {
	tx := wire.NewMsgTx(2)
	var zero chainhash.Hash
	sc := make([]byte, 8)
	binary.LittleEndian.PutUint64(sc, height)
	c.ctr++
	sc = append(sc, byte(c.ctr), byte(c.ctr>>8))
	tx.AddTxIn(wire.NewTxIn(&wire.OutPoint{Hash: zero, Index: 0xffffffff}, sc, nil))
	if len(outs) == 0 {
		outs = []*wire.TxOut{wire.NewTxOut(50_0000_0000, append([]byte{0, 20}, make([]byte, 20)...))}
	}
	for _, o := range outs {
		tx.AddTxOut(o)
	}
	return tx
}

// Mine appends a block made of the given transactions (txs[0] is the coinbase position).
func (c *BtcChain) Mine(txs []*wire.MsgTx) *BtcBlock {
	b := &BtcBlock{Height: c.Tip + 1, Txs: txs}
	for _, tx := range txs {
		raw := NoWitness(tx)
		b.Raw = append(b.Raw, raw)
		b.Txids = append(b.Txids, DSha(raw))
	}
	b.Tree = NewMerkleTree(b.Txids)
	c.ctr++
	b.Header = BtcHeader(c.prev, b.Tree.Root(), c.ctr)
	b.Hash = DSha(b.Header)
	c.prev = b.Hash
	c.Tip = b.Height
	c.Blocks[b.Height] = b
	return b
}

// MineEmpty appends n blocks that contain only a coinbase.
func (c *BtcChain) MineEmpty(n int) []*BtcBlock {
	var out []*BtcBlock
	for i := 0; i < n; i++ {
		out = append(out, c.Mine([]*wire.MsgTx{c.CoinbaseTx(c.Tip + 1)}))
	}
	return out
}

// SystemScript is the change/consolidation script of a relayer key, built by hand.
func SystemScript(key *relayertypes.PublicKey) []byte {
	switch k := key.Key.(type) {
	case *relayertypes.PublicKey_Secp256K1:
		return append([]byte{0x00, 0x14}, btcutil.Hash160(k.Secp256K1)...)
	case *relayertypes.PublicKey_Schnorr:
		pub, err := schnorr.ParsePubKey(k.Schnorr)
		if err != nil {
			panic(err)
		}
		return append([]byte{0x51, 0x20}, schnorr.SerializePubKey(txscript.ComputeTaprootKeyNoScript(pub))...)
	}
	return nil
}

// P2WPKH returns a regtest pay-to-witness-pubkey-hash address and its script for a 20-byte hash.
func P2WPKH(h20 []byte, net *chaincfg.Params) (string, []byte) {
	a, err := btcutil.NewAddressWitnessPubKeyHash(h20, net)
	if err != nil {
		panic(err)
	}
	return a.EncodeAddress(), append([]byte{0x00, 0x14}, h20...)
}

// P2WPKHScript is the output script for a 20-byte key hash.
func P2WPKHScript(h20 []byte) []byte { return append([]byte{0x00, 0x14}, h20...) }
