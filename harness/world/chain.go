package world

import (
	"bytes"
	"context"
	"crypto/sha256"
	"encoding/binary"
	"errors"
	"fmt"
	"runtime"
	"runtime/debug"
	"sort"
	"strings"
	"time"

	abci "github.com/cometbft/cometbft/abci/types"
	cmtproto "github.com/cometbft/cometbft/proto/tendermint/types"
	cmttypes "github.com/cometbft/cometbft/types"
	sdk "github.com/cosmos/cosmos-sdk/types"
	"github.com/ethereum/go-ethereum/beacon/engine"
	"github.com/ethereum/go-ethereum/common"
	goatxtypes "github.com/goatnetwork/goat/x/goat/types"
)

// Block is one finalised consensus block as the harness (playing CometBFT) saw it.
type Block struct {
	Height   int64
	Time     time.Time
	Proposer []byte
	Req      *abci.RequestFinalizeBlock
	Resp     *abci.ResponseFinalizeBlock
	Payload  *goatxtypes.ExecutionPayload // payload carried by tx 0, nil if undecodable
	BlockOK  bool                         // tx 0 executed with code 0
	Reqs     *Requests                    // what the EL was scripted to emit
	ELCalls  []Call                       // engine calls made by node 0 during FinalizeBlock
	VsetErr  error                        // CometBFT's verdict on the validator updates
}

// Chain drives one or more nodes through consensus heights the way CometBFT does.
type Chain struct {
	W      *World
	Nodes  []*Node // Nodes[i] holds the key of validator i; entries may be nil
	Height int64
	Now    time.Time

	Vals     *cmttypes.ValidatorSet // set of height Height+1 (signs/proposes the next block)
	NextVals *cmttypes.ValidatorSet // set of height Height+2
	LastVals *cmttypes.ValidatorSet // set of height Height (its votes are the next block's LastCommit)

	Blocks   []*Block
	injected [][]byte
	Step0    time.Duration // default block interval
	// Rotate uses CometBFT's proposer rotation among validators that run a node;
	// otherwise validator 0 (node 0) proposes every block.
	Rotate bool
}

// ErrCrash is returned when FinalizeBlock fails: CometBFT would halt the node.
type ErrCrash struct {
	Height int64
	Node   int
	Err    error
}

func (e *ErrCrash) Error() string {
	return fmt.Sprintf("FinalizeBlock failed at height %d on node %d: %v", e.Height, e.Node, e.Err)
}

// ErrRejected is returned when an honest proposal is rejected by ProcessProposal.
type ErrRejected struct {
	Height int64
	Node   int
	Err    error
}

func (e *ErrRejected) Error() string {
	return fmt.Sprintf("honest proposal rejected at height %d by node %d: %v", e.Height, e.Node, e.Err)
}

// NewChain starts NNodes nodes and returns the driver at height 0.
func NewChain(w *World) (*Chain, error) {
	c := &Chain{W: w, Step0: 3 * time.Second}
	for i := 0; i < w.Cfg.NNodes; i++ {
		n, err := w.StartNode(i)
		if err != nil {
			return nil, err
		}
		c.Nodes = append(c.Nodes, n)
	}
	c.Now = w.Cfg.GenTime
	c.Vals = cmttypes.NewValidatorSet(w.GenVals)
	c.NextVals = c.Vals.CopyIncrementProposerPriority(1)
	return c, nil
}

// Close stops all nodes and removes scratch files.
func (c *Chain) Close() {
	for _, n := range c.Nodes {
		if n != nil {
			n.Close()
		}
	}
	c.W.Cleanup()
}

func (c *Chain) Node() *Node { return c.Nodes[0] }

// Inject places raw transactions directly behind the block message of the next block.
func (c *Chain) Inject(txs ...[]byte) { c.injected = append(c.injected, txs...) }

// CheckTx offers a transaction to node i's mempool.
func (c *Chain) CheckTx(i int, tx []byte, recheck bool) (*abci.ResponseCheckTx, error) {
	t := abci.CheckTxType_New
	if recheck {
		t = abci.CheckTxType_Recheck
	}
	return c.Nodes[i].App.CheckTx(&abci.RequestCheckTx{Tx: tx, Type: t})
}

// StepOpts tunes one height.
type StepOpts struct {
	Dt       time.Duration
	Absent   map[string]bool // string(consAddr) -> did not sign the previous block
	NilVote  map[string]bool // string(consAddr) -> took part in the previous round but voted nil (present, not absent)
	Evidence []abci.Misbehavior
	Reqs     *Requests
	Prop     int // 1-based index of the proposing validator (must run a node); 0 = default
	// Mutate may replace the proposal's transactions after PrepareProposal (C06/C08 hostile proposals).
	Mutate func(txs [][]byte) [][]byte
	// AfterPrepare runs once the proposal is assembled, before any node processes it (hostile proposal rounds).
	AfterPrepare func(prop int, h int64, t time.Time, txs [][]byte, lc abci.CommitInfo)
	// NoProcess skips ProcessProposal (forces a proposal into FinalizeBlock).
	NoProcess bool
	// BeforeFinalize runs after ProcessProposal and before FinalizeBlock.
	BeforeFinalize func()
	// NoCommit finalises without committing (crash model); the caller restarts nodes.
	NoCommit bool
	// TolerateReject makes a rejected proposal return ErrRejected without panic; default behaviour is the same.
}

func blockHash(h int64, t time.Time, txs [][]byte) []byte {
	s := sha256.New()
	var b [16]byte
	binary.BigEndian.PutUint64(b[:8], uint64(h))
	binary.BigEndian.PutUint64(b[8:], uint64(t.UnixNano()))
	s.Write(b[:])
	for _, tx := range txs {
		s.Write(tx)
	}
	return s.Sum(nil)
}

// LastCommitInfo builds the commit info for the next block from LastVals.
func (c *Chain) LastCommitInfo(absent map[string]bool, nilVote ...map[string]bool) abci.CommitInfo {
	var ci abci.CommitInfo
	if c.LastVals == nil {
		return ci
	}
	for _, v := range c.LastVals.Validators {
		flag := cmtproto.BlockIDFlagCommit
		if absent[string(v.Address)] {
			flag = cmtproto.BlockIDFlagAbsent
		} else if len(nilVote) > 0 && nilVote[0][string(v.Address)] {
			flag = cmtproto.BlockIDFlagNil
		}
		ci.Votes = append(ci.Votes, abci.VoteInfo{Validator: abci.Validator{Address: v.Address, Power: v.VotingPower}, BlockIdFlag: flag})
	}
	return ci
}

// ProposerIndex picks the proposing validator for the next height.
func (c *Chain) ProposerIndex(want int) int {
	if want >= 0 {
		return want
	}
	if !c.Rotate {
		return 0
	}
	vs := c.Vals.Copy()
	for round := 0; round < 4*len(vs.Validators)+4; round++ {
		p := vs.GetProposer()
		for i, n := range c.Nodes {
			if n != nil && bytes.Equal(c.W.Vals[i].Cons, p.Address) {
				return i
			}
		}
		vs.IncrementProposerPriority(1)
	}
	return 0
}

// Prepare runs PrepareProposal on the proposer's node for the next height.
func (c *Chain) Prepare(prop int, h int64, t time.Time, reqs *Requests) ([][]byte, error) {
	n := c.Nodes[prop]
	n.EL.SetNext(reqs)
	n.EL.SetPhase("prepare")
	req := &abci.RequestPrepareProposal{MaxTxBytes: 4 << 20, Height: h, Time: t, ProposerAddress: c.W.Vals[prop].Cons}
	pp, err := n.prepareWatched(req)
	if err != nil {
		return nil, err
	}
	// the proposer has a 1.2 s deadline for its two engine calls; on a heavily loaded machine the round trip
	// over the unix socket can exceed it although nothing was injected: retry as CometBFT's next round would
	for retry := 0; retry < 8 && len(pp.Txs) == 0 && !n.EL.HasFaults(); retry++ {
		time.Sleep(time.Duration(100*(retry+1)) * time.Millisecond)
		if pp, err = n.prepareWatched(req); err != nil {
			return nil, err
		}
	}
	if len(pp.Txs) == 0 {
		// BaseApp swallows the handler's error and answers with the (empty) list of transactions it was
		// given: the proposer has nothing to propose, which every validator would refuse
		return nil, ErrNoProposal
	}
	return pp.Txs, nil
}

// ErrNoProposal reports that PrepareProposal produced no block message (the handler failed).
var ErrNoProposal = errors.New("PrepareProposal produced no proposal (the handler failed)")

// Process runs ProcessProposal on node i.
func (c *Chain) Process(i int, prop int, h int64, t time.Time, txs [][]byte, lc abci.CommitInfo, ev []abci.Misbehavior) (bool, error) {
	n := c.Nodes[i]
	n.EL.SetPhase("process")
	pr, err := n.App.ProcessProposal(&abci.RequestProcessProposal{
		Txs: txs, Height: h, Time: t, ProposerAddress: c.W.Vals[prop].Cons, Hash: blockHash(h, t, txs), ProposedLastCommit: lc, Misbehavior: ev,
	})
	if err != nil {
		return false, err
	}
	return pr.Status == abci.ResponseProcessProposal_ACCEPT, nil
}

// Step runs one full height on all nodes.
func (c *Chain) Step(o StepOpts) (*Block, error) {
	h := c.Height + 1
	dt := o.Dt
	if dt == 0 {
		dt = c.Step0
	}
	t := c.Now.Add(dt)
	if c.W.Cfg.RealTime {
		if t = time.Now().UTC(); !t.After(c.Now) {
			t = c.Now.Add(time.Nanosecond)
		}
	}
	prop := c.ProposerIndex(o.Prop - 1)
	lc := c.LastCommitInfo(o.Absent, o.NilVote)

	txs, err := c.Prepare(prop, h, t, o.Reqs)
	if err != nil {
		var st *ErrStuck
		if errors.Is(err, ErrNoProposal) && !c.Nodes[prop].EL.HasFaults() {
			// nine attempts over several seconds on an execution layer that answers every call properly: the honest proposer
			// cannot build its block
			return nil, &ErrRejected{Height: h, Node: prop, Err: err}
		}
		if errors.As(err, &st) {
			// the honest proposer never finishes building its block: for the network that is a proposal nobody can accept
			return nil, &ErrRejected{Height: h, Node: prop, Err: err}
		}
		return nil, fmt.Errorf("prepare h=%d: %w", h, err)
	}
	if len(c.injected) > 0 {
		room := 16 - len(txs)
		if room > len(c.injected) {
			room = len(c.injected)
		}
		if room > 0 {
			txs = append(txs, c.injected[:room]...)
			c.injected = c.injected[room:]
		}
	}
	if o.Mutate != nil {
		txs = o.Mutate(txs)
	}
	if len(txs) > 16 {
		return nil, &ErrRejected{Height: h, Node: prop, Err: fmt.Errorf("honest proposal has %d transactions (cap 16)", len(txs))}
	}
	if o.AfterPrepare != nil {
		o.AfterPrepare(prop, h, t, txs, lc)
	}
	if !o.NoProcess {
		for i, n := range c.Nodes {
			if n == nil {
				continue
			}
			ok, err := c.Process(i, prop, h, t, txs, lc, o.Evidence)
			if err != nil || !ok {
				if err == nil {
					err = c.whyRejected(i, txs)
				}
				return nil, &ErrRejected{Height: h, Node: i, Err: err}
			}
		}
	}
	return c.FinalizeAndCommit(prop, h, t, txs, lc, o)
}

// FinalizeAndCommit executes an already agreed proposal on every node, commits and advances.
func (c *Chain) FinalizeAndCommit(prop int, h int64, t time.Time, txs [][]byte, lc abci.CommitInfo, o StepOpts) (*Block, error) {
	if o.BeforeFinalize != nil {
		o.BeforeFinalize()
	}
	req := &abci.RequestFinalizeBlock{
		Txs: txs, Height: h, Time: t, ProposerAddress: c.W.Vals[prop].Cons, Hash: blockHash(h, t, txs),
		DecidedLastCommit: lc, Misbehavior: o.Evidence,
		NextValidatorsHash: c.NextVals.Hash(),
	}
	blk := &Block{Height: h, Time: t, Proposer: c.W.Vals[prop].Cons, Req: req, Reqs: o.Reqs}
	blk.Payload = DecodeBlockTx(c.W, txs)
	var first *abci.ResponseFinalizeBlock
	for i, n := range c.Nodes {
		if n == nil {
			continue
		}
		n.EL.SetNext(o.Reqs)
		n.EL.SetPhase("finalize")
		from := n.EL.NCalls()
		fb, err := n.Finalize(req)
		if err != nil {
			return blk, &ErrCrash{Height: h, Node: i, Err: err}
		}
		if first == nil {
			first = fb
			blk.ELCalls = n.EL.Calls(from)
		} else if !bytes.Equal(first.AppHash, fb.AppHash) {
			return blk, fmt.Errorf("nodes disagree on app hash at height %d: node0 %x node%d %x", h, first.AppHash, i, fb.AppHash)
		}
	}
	blk.Resp = first
	blk.BlockOK = len(first.TxResults) > 0 && first.TxResults[0].Code == 0
	if o.NoCommit {
		return blk, nil
	}
	for _, n := range c.Nodes {
		if n == nil {
			continue
		}
		if _, err := n.App.Commit(); err != nil {
			return blk, err
		}
		n.EL.SetPhase("idle")
	}
	c.Advance(blk)
	return blk, nil
}

// Advance applies CometBFT's state update after a committed block.
func (c *Chain) Advance(blk *Block) {
	c.Height = blk.Height
	c.Now = blk.Time
	nv := c.NextVals.Copy()
	if ups := blk.Resp.ValidatorUpdates; len(ups) > 0 {
		vus, err := cmttypes.PB2TM.ValidatorUpdates(ups)
		if err != nil {
			blk.VsetErr = err
		} else if err := nv.UpdateWithChangeSet(vus); err != nil {
			blk.VsetErr = err
			nv = c.NextVals.Copy()
		}
	}
	nv.IncrementProposerPriority(1)
	c.LastVals = c.Vals
	c.Vals = c.NextVals
	c.NextVals = nv
	c.Blocks = append(c.Blocks, blk)
}

// Query runs a gRPC query against node i's committed state.
func (c *Chain) Query(i int, path string, req interface{ Marshal() ([]byte, error) }, resp interface{ Unmarshal([]byte) error }) error {
	return c.Nodes[i].Query(path, req, resp)
}

func (n *Node) Query(path string, req interface{ Marshal() ([]byte, error) }, resp interface{ Unmarshal([]byte) error }) error {
	var data []byte
	if req != nil {
		var err error
		data, err = req.Marshal()
		if err != nil {
			return err
		}
	}
	q, err := n.App.Query(context.Background(), &abci.RequestQuery{Path: path, Data: data})
	if err != nil {
		return err
	}
	if q.Code != 0 {
		return &QueryError{Code: q.Code, Log: q.Log}
	}
	return resp.Unmarshal(q.Value)
}

type QueryError struct {
	Code uint32
	Log  string
}

func (e *QueryError) Error() string { return fmt.Sprintf("query failed: code %d: %s", e.Code, e.Log) }

// DecodeBlockTx extracts the execution payload of tx 0, if it is a well-formed block message.
func DecodeBlockTx(w *World, txs [][]byte) *goatxtypes.ExecutionPayload {
	if len(txs) == 0 {
		return nil
	}
	tx, err := w.txConfig.TxDecoder()(txs[0])
	if err != nil {
		return nil
	}
	msgs := tx.GetMsgs()
	if len(msgs) != 1 {
		return nil
	}
	m, ok := msgs[0].(*goatxtypes.MsgNewEthBlock)
	if !ok {
		return nil
	}
	return m.Payload
}

// MustStep is Step for workloads in which neither a crash nor a rejection is expected.
func (c *Chain) MustStep(o StepOpts) (*Block, error) {
	b, err := c.Step(o)
	if err != nil {
		var cr *ErrCrash
		var rj *ErrRejected
		if errors.As(err, &cr) || errors.As(err, &rj) {
			return b, err
		}
		return b, fmt.Errorf("harness: %w", err)
	}
	return b, nil
}

// ConsAddrOf returns string(consAddress) of validator i for Absent maps.
func (c *Chain) ConsAddrOf(i int) string { return string(c.W.Vals[i].Cons) }

var _ = sdk.AccAddress{}

// Apply makes the chain execute a block that was produced elsewhere (a twin or a
// recorded history), optionally with a different transaction list. The block
// hash, time, proposer, commit info and evidence are taken from the original.
func (c *Chain) Apply(orig *Block, txs [][]byte) (*Block, error) {
	req := *orig.Req
	req.Txs = txs
	blk := &Block{Height: req.Height, Time: req.Time, Proposer: req.ProposerAddress, Req: &req, Reqs: orig.Reqs}
	blk.Payload = DecodeBlockTx(c.W, txs)
	var first *abci.ResponseFinalizeBlock
	for i, n := range c.Nodes {
		if n == nil {
			continue
		}
		n.EL.SetPhase("finalize")
		from := n.EL.NCalls()
		fb, err := n.Finalize(&req)
		if err != nil {
			return blk, &ErrCrash{Height: req.Height, Node: i, Err: err}
		}
		if first == nil {
			first = fb
			blk.ELCalls = n.EL.Calls(from)
		}
		if _, err := n.App.Commit(); err != nil {
			return blk, err
		}
		n.EL.SetPhase("idle")
	}
	blk.Resp = first
	blk.BlockOK = len(first.TxResults) > 0 && first.TxResults[0].Code == 0
	c.Advance(blk)
	return blk, nil
}

// DiffStores lists the stores whose commit hashes differ between two nodes.
func DiffStores(a, b *Node, names ...string) []string {
	ha, hb := a.StoreHashes(), b.StoreHashes()
	var d []string
	for _, n := range names {
		if ha[n] != hb[n] {
			d = append(d, n)
		}
	}
	return d
}

// Finalize calls FinalizeBlock and converts a panic (which would kill a real node) into an error.
func (n *Node) Finalize(req *abci.RequestFinalizeBlock) (resp *abci.ResponseFinalizeBlock, err error) {
	defer func() {
		if r := recover(); r != nil {
			err = fmt.Errorf("panic in FinalizeBlock: %v\n%s", r, shortStack())
		}
	}()
	return n.App.FinalizeBlock(req)
}

func shortStack() string {
	st := string(debug.Stack())
	lines := strings.Split(st, "\n")
	var keep []string
	for _, l := range lines {
		if strings.Contains(l, "goatnetwork/goat") || strings.Contains(l, "cosmos-sdk/baseapp") {
			keep = append(keep, strings.TrimSpace(l))
		}
		if len(keep) >= 16 {
			break
		}
	}
	return strings.Join(keep, "\n")
}

// PayloadED converts a consensus payload into engine data (harness-side, independent of x/goat/types).
func PayloadED(p *goatxtypes.ExecutionPayload) *engine.ExecutableData {
	blob, excess := p.BlobGasUsed, p.ExcessBlobGas
	txs := p.Transactions
	if txs == nil {
		txs = [][]byte{}
	}
	return &engine.ExecutableData{
		ParentHash: common.BytesToHash(p.ParentHash), FeeRecipient: common.BytesToAddress(p.FeeRecipient), StateRoot: common.BytesToHash(p.StateRoot),
		ReceiptsRoot: common.BytesToHash(p.ReceiptsRoot), LogsBloom: p.LogsBloom, Random: common.BytesToHash(p.PrevRandao), Number: p.BlockNumber,
		GasLimit: p.GasLimit, GasUsed: p.GasUsed, Timestamp: p.Timestamp, ExtraData: p.ExtraData, BaseFeePerGas: p.BaseFeePerGas.BigInt(),
		BlockHash: common.BytesToHash(p.BlockHash), Transactions: txs, BlobGasUsed: &blob, ExcessBlobGas: &excess,
	}
}

// Rehash recomputes the payload's block hash so that the (fake) execution client finds it consistent.
func Rehash(p *goatxtypes.ExecutionPayload) {
	p.BlockHash = BlockHashOf(PayloadED(p), common.BytesToHash(p.BeaconRoot), p.Requests).Bytes()
}

// BlockTx signs a MsgNewEthBlock transaction as validator prop would for height h.
func (c *Chain) BlockTx(prop int, h int64, proposerField string, payload *goatxtypes.ExecutionPayload, extra ...sdk.Msg) ([]byte, error) {
	num, seq, ok := c.Account(sdk.AccAddress(c.W.Vals[prop].Cons))
	if !ok {
		return nil, fmt.Errorf("no account for validator %d", prop)
	}
	msgs := append([]sdk.Msg{&goatxtypes.MsgNewEthBlock{Proposer: proposerField, Payload: payload}}, extra...)
	return c.W.SignTx(TxSpec{Msgs: msgs, Priv: c.W.ValPriv(prop), AccNum: num, Seq: seq, Timeout: uint64(h), Gas: 100_000_000})
}

// ValAddrStr is the bech32 account address of validator i.
func (w *World) ValAddrStr(i int) string { return sdk.AccAddress(w.Vals[i].Cons).String() }

// whyRejected re-checks each transaction of a refused proposal in CheckTx mode to name the culprit
// (diagnostics only; the application logs the reason but returns just REJECT).
func (c *Chain) whyRejected(i int, txs [][]byte) error {
	for k, tx := range txs {
		if k == 0 {
			continue
		}
		res, err := c.Nodes[i].App.CheckTx(&abci.RequestCheckTx{Tx: tx, Type: abci.CheckTxType_New})
		if err != nil {
			return fmt.Errorf("tx %d: %v", k, err)
		}
		if res.Code != 0 {
			return fmt.Errorf("tx %d refused by the ante chain: %s", k, res.Log)
		}
	}
	return fmt.Errorf("no single transaction is refused in check mode (%d txs)", len(txs))
}

// ErrStuck reports that an ABCI call made no progress: it had not returned after a long wait, and two observations of
// the goroutines working for it, seconds apart, were identical (all blocked at the same places). The node is unusable
// afterwards (the call still holds whatever it holds).
type ErrStuck struct {
	Call   string
	Stacks string
}

func (e *ErrStuck) Error() string {
	return fmt.Sprintf("%s makes no progress (goroutines blocked at the same places in two observations 5 s apart):\n%s", e.Call, e.Stacks)
}

// prepareWatched calls PrepareProposal and watches for a call that never returns. The proposer's own deadline for its engine
// calls is 1.2 s; a call that is still running after 30 s is looked at twice, 5 s apart: only if the goroutines working
// for it have not moved at all is it reported as stuck - the verdict rests on the absence of any progress between two
// observations, not on the waiting time. A call that is slow but alive is simply waited for.
func (n *Node) prepareWatched(req *abci.RequestPrepareProposal) (*abci.ResponsePrepareProposal, error) {
	type res struct {
		pp  *abci.ResponsePrepareProposal
		err error
	}
	done := make(chan res, 1)
	go func() {
		pp, err := n.App.PrepareProposal(req)
		done <- res{pp, err}
	}()
	wait := 30 * time.Second
	var last string
	for {
		select {
		case r := <-done:
			return r.pp, r.err
		case <-time.After(wait):
		}
		cur := stacksMentioning("PrepareProposal")
		if strings.Contains(cur, "[running]") || strings.Contains(cur, "[runnable]") || strings.Contains(cur, "[syscall]") {
			last = "" // something is (or wants to be) on a processor: slow, not stuck
			wait = 5 * time.Second
			continue
		}
		if last != "" && cur == last {
			return nil, &ErrStuck{Call: "PrepareProposal", Stacks: cur}
		}
		last = cur
		wait = 5 * time.Second
	}
}

// stacksMentioning renders the goroutines whose stack contains the marker: state and frames without addresses and
// argument values, so that two renderings are equal exactly when nothing moved.
func stacksMentioning(marker string) string {
	buf := make([]byte, 8<<20)
	buf = buf[:runtime.Stack(buf, true)]
	var out []string
	for _, g := range strings.Split(string(buf), "\n\n") {
		if !strings.Contains(g, marker) || strings.Contains(g, "stacksMentioning") || strings.Contains(g, "prepareWatched(") && !strings.Contains(g, "App.PrepareProposal") && !strings.Contains(g, "BaseApp).PrepareProposal") {
			continue
		}
		var keep []string
		for i, l := range strings.Split(g, "\n") {
			if i == 0 {
				// "goroutine 12 [semacquire, 1 minutes]:" -> state only
				if a, b := strings.Index(l, "["), strings.Index(l, "]"); a >= 0 && b > a {
					st := l[a+1 : b]
					if c := strings.Index(st, ","); c >= 0 {
						st = st[:c]
					}
					keep = append(keep, "["+st+"]")
				}
				continue
			}
			if strings.HasPrefix(l, "\t") {
				continue // file:line +0x.. lines
			}
			if k := strings.Index(l, "("); k >= 0 {
				l = l[:k]
			}
			keep = append(keep, l)
		}
		out = append(out, strings.Join(keep, " <- "))
	}
	sort.Strings(out)
	return strings.Join(out, "\n")
}
