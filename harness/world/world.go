package world

import (
	"encoding/json"
	"fmt"
	"os"
	"path/filepath"
	"time"

	"cosmossdk.io/log"
	"cosmossdk.io/math"
	abci "github.com/cometbft/cometbft/abci/types"
	cmtjson "github.com/cometbft/cometbft/libs/json"
	"github.com/cometbft/cometbft/privval"
	cmtproto "github.com/cometbft/cometbft/proto/tendermint/types"
	cmttypes "github.com/cometbft/cometbft/types"
	dbm "github.com/cosmos/cosmos-db"
	"github.com/cosmos/cosmos-sdk/client"
	"github.com/cosmos/cosmos-sdk/codec"
	codectypes "github.com/cosmos/cosmos-sdk/codec/types"
	"github.com/cosmos/cosmos-sdk/server"
	sdk "github.com/cosmos/cosmos-sdk/types"
	authtx "github.com/cosmos/cosmos-sdk/x/auth/tx"
	authtypes "github.com/cosmos/cosmos-sdk/x/auth/types"
	"github.com/goatnetwork/goat/app"
	bitcointypes "github.com/goatnetwork/goat/x/bitcoin/types"
	goatxtypes "github.com/goatnetwork/goat/x/goat/types"
	lockingtypes "github.com/goatnetwork/goat/x/locking/types"
	relayertypes "github.com/goatnetwork/goat/x/relayer/types"
	"github.com/spf13/viper"
)

// Config describes one simulated network.
type Config struct {
	Seed       uint64
	Label      string // makes keys of different worlds of one seed differ
	ChainID    string
	NVals      int      // genesis validators, all active
	Powers     []uint64 // voting power of genesis validators (default 100)
	NNodes     int      // validators 0..NNodes-1 run a node (default 1)
	MempoolMax int      // application mempool capacity (mempool.max-txs); 0 = the shipped default of 10
	NRelayers  int      // relayer group size incl. proposer (default 1)
	Schnorr    bool     // relayer bitcoin key type
	DiskDB     bool     // goleveldb instead of memdb (needed for restarts from disk)
	GenTime    time.Time
	RealTime   bool // block times are the wall clock at proposal time (genesis time = now): the chain's clock tracks the machine's, as on a live network

	Locking func(*lockingtypes.GenesisState)
	Relayer func(*relayertypes.GenesisState)
	Bitcoin func(*bitcointypes.GenesisState)
	Auth    func(*[]authtypes.GenesisAccount)
	Cons    func(*cmttypes.ConsensusParams)
	// ExtraAccounts are created at genesis after validators and relayers (e.g. a stranger).
	ExtraAccounts []sdk.AccAddress
}

// World holds the immutable description of a network: keys and genesis.
type World struct {
	Cfg        Config
	Dir        string
	Vals       []ValKey
	Members    []*Member
	BtcKey     *relayertypes.PublicKey
	BtcPriv    []byte // secret of the relayer bitcoin key (same scalar for both key types)
	GenState   []byte
	ConsParams cmtproto.ConsensusParams
	GenVals    []*cmttypes.Validator
	EL         *ELBackend
	AccNum     map[string]uint64 // bech32 -> account number

	cdc      codec.Codec
	txConfig client.TxConfig
}

type appOpts struct{ v *viper.Viper }

func (a appOpts) Get(k string) interface{} { return a.v.Get(k) }

// Node is one running application instance with its own execution client endpoint.
type Node struct {
	W     *World
	Idx   int // validator index whose key the node holds
	App   *app.App
	DB    dbm.DB
	Dir   string
	EL    *ELFront
	dbDir string
}

var scratchRoot = func() string {
	if d := os.Getenv("VERIF_SCRATCH"); d != "" {
		return d
	}
	return os.TempDir()
}()

// New builds keys and genesis. Nothing is started yet.
func New(cfg Config) (*World, error) {
	if cfg.ChainID == "" {
		cfg.ChainID = "goat-verif-1"
	}
	if cfg.NVals == 0 {
		cfg.NVals = 1
	}
	if cfg.NNodes == 0 {
		cfg.NNodes = 1
	}
	if cfg.NRelayers == 0 {
		cfg.NRelayers = 1
	}
	if cfg.GenTime.IsZero() && cfg.RealTime {
		cfg.GenTime = time.Now().UTC().Truncate(time.Millisecond)
	}
	if cfg.GenTime.IsZero() {
		cfg.GenTime = time.Unix(1_700_000_000, 0).UTC()
	}
	dir, err := os.MkdirTemp(scratchRoot, "vw-")
	if err != nil {
		return nil, err
	}
	w := &World{Cfg: cfg, Dir: dir, EL: NewELBackend(), AccNum: map[string]uint64{}}
	for i := 0; i < cfg.NVals; i++ {
		w.Vals = append(w.Vals, NewValKey(cfg.Seed, cfg.Label, i))
	}
	for i := 0; i < cfg.NRelayers; i++ {
		w.Members = append(w.Members, NewMember(cfg.Seed, cfg.Label, i))
	}
	w.BtcPriv = derive(cfg.Seed, "btckey/"+cfg.Label, 0)
	w.BtcKey = BtcPubKey(w.BtcPriv, cfg.Schnorr)
	return w, nil
}

// Cleanup removes the scratch directory.
func (w *World) Cleanup() { os.RemoveAll(w.Dir) }

// buildGenesis needs a codec, which needs an app; called by the first StartNode.
func (w *World) buildGenesis(cdc codec.Codec) error {
	cfg := w.Cfg
	var accs []authtypes.GenesisAccount
	n := uint64(0)
	add := func(addr sdk.AccAddress, pk interface{ Bytes() []byte }, any *codectypes.Any) {
		accs = append(accs, &authtypes.BaseAccount{Address: addr.String(), AccountNumber: n, PubKey: any})
		w.AccNum[addr.String()] = n
		n++
	}
	for _, v := range w.Vals {
		any, err := codectypes.NewAnyWithValue(v.Pub)
		if err != nil {
			return err
		}
		add(sdk.AccAddress(v.Cons), v.Pub, any)
	}
	for _, m := range w.Members {
		any, err := codectypes.NewAnyWithValue(m.Tx.PubKey())
		if err != nil {
			return err
		}
		add(m.Addr, nil, any)
	}
	for _, a := range cfg.ExtraAccounts {
		add(a, nil, nil)
	}
	if cfg.Auth != nil {
		cfg.Auth(&accs)
	}
	authGen := authtypes.NewGenesisState(authtypes.DefaultParams(), accs)

	relGen := relayertypes.GenesisState{
		Params:  relayertypes.Params{ElectingPeriod: 10 * time.Minute, AcceptProposerTimeout: time.Minute},
		Relayer: &relayertypes.Relayer{Proposer: w.Members[0].AddrStr, LastElected: cfg.GenTime, ProposerAccepted: true},
		Pubkeys: []*relayertypes.PublicKey{w.BtcKey},
		Randao:  make([]byte, 32),
	}
	for i, m := range w.Members {
		relGen.Voters = append(relGen.Voters, relayertypes.Voter{Address: m.Addr, VoteKey: m.BLSPub, Status: relayertypes.VOTER_STATUS_ACTIVATED})
		if i > 0 {
			relGen.Relayer.Voters = append(relGen.Relayer.Voters, m.AddrStr)
		}
	}
	if cfg.Relayer != nil {
		cfg.Relayer(&relGen)
	}

	btcGen := bitcointypes.DefaultGenesis()
	btcGen.Pubkey = w.BtcKey
	if cfg.Bitcoin != nil {
		cfg.Bitcoin(btcGen)
	}

	lockGen := lockingtypes.DefaultGenesis()
	lockGen.Params.UnlockDuration = 30 * time.Second
	lockGen.Params.ExitingDuration = 90 * time.Second
	lockGen.Params.DowntimeJailDuration = time.Minute
	lockGen.Params.SignedBlocksWindow = 8
	lockGen.Params.MaxMissedPerWindow = 3
	lockGen.Params.HalvingInterval = 20
	lockGen.Params.InitialBlockReward = 1_000_000_000_000_000_000
	one := math.NewIntFromUint64(1e18)
	for i, v := range w.Vals {
		pw := uint64(100)
		if i < len(cfg.Powers) {
			pw = cfg.Powers[i]
		}
		lockGen.Validators = append(lockGen.Validators, lockingtypes.Validator{
			Pubkey: v.Pub.Key, Power: pw, Reward: math.ZeroInt(), GasReward: math.ZeroInt(), Status: lockingtypes.Active,
			Locking: sdk.NewCoins(sdk.NewCoin("btc", one.Mul(math.NewIntFromUint64(pw)))),
		})
	}
	lockGen.Tokens = []*lockingtypes.TokenGenesis{{Denom: "btc", Token: lockingtypes.Token{Weight: 1, Threshold: one}}}
	lockGen.RewardPool.Remain = one.MulRaw(1000)
	if cfg.Locking != nil {
		cfg.Locking(lockGen)
	}
	w.GenVals = nil
	for _, gv := range lockGen.Validators {
		if gv.Status == lockingtypes.Active {
			var pk [33]byte
			copy(pk[:], gv.Pubkey)
			w.GenVals = append(w.GenVals, cmttypes.NewValidator(cmtsecpPub(gv.Pubkey), int64(gv.Power)))
		}
	}

	genesisEth := goatxtypes.ExecutionPayload{
		ParentHash: make([]byte, 32), FeeRecipient: make([]byte, 20), StateRoot: make([]byte, 32), ReceiptsRoot: make([]byte, 32),
		LogsBloom: make([]byte, 256), PrevRandao: make([]byte, 32), GasLimit: 30_000_000, Timestamp: uint64(cfg.GenTime.Unix()),
		ExtraData: make([]byte, 33), BaseFeePerGas: math.NewInt(7), BlockHash: w.EL.Genesis.Bytes(), BeaconRoot: make([]byte, 32),
	}
	goatGen := goatxtypes.GenesisState{EthBlock: genesisEth, BeaconRoot: make([]byte, 32)}

	state := map[string]json.RawMessage{
		"auth":    cdc.MustMarshalJSON(authGen),
		"relayer": cdc.MustMarshalJSON(&relGen),
		"bitcoin": cdc.MustMarshalJSON(btcGen),
		"locking": cdc.MustMarshalJSON(lockGen),
		"goat":    cdc.MustMarshalJSON(&goatGen),
	}
	bz, err := json.Marshal(state)
	if err != nil {
		return err
	}
	w.GenState = bz
	cp := cmttypes.DefaultConsensusParams()
	cp.Validator.PubKeyTypes = []string{"secp256k1"}
	if cfg.Cons != nil {
		cfg.Cons(cp)
	}
	w.ConsParams = cp.ToProto()
	return nil
}

// NewDB opens a fresh database for a node.
func (w *World) NewDB(name string) (dbm.DB, string, error) {
	if !w.Cfg.DiskDB {
		return dbm.NewMemDB(), "", nil
	}
	dir := filepath.Join(w.Dir, "db-"+name)
	db, err := dbm.NewGoLevelDB("application", dir, nil)
	return db, dir, err
}

var nodeSeq int

// OpenNode creates an application instance for validator idx on the given DB
// (which may already contain state). It does not call InitChain.
func (w *World) OpenNode(idx int, db dbm.DB, dbDir string) (*Node, error) {
	nodeSeq++
	dir := filepath.Join(w.Dir, fmt.Sprintf("n%d-%d", idx, nodeSeq))
	if err := os.MkdirAll(filepath.Join(dir, "config"), 0o755); err != nil {
		return nil, err
	}
	front, err := NewELFront(w.EL, filepath.Join(dir, "geth.ipc"))
	if err != nil {
		return nil, err
	}
	vk := w.Vals[idx]
	pv := privval.FilePVKey{Address: vk.Priv.PubKey().Address(), PubKey: vk.Priv.PubKey(), PrivKey: vk.Priv}
	bz, err := cmtjson.MarshalIndent(pv, "", " ")
	if err != nil {
		return nil, err
	}
	keyFile := filepath.Join(dir, "config", "priv_validator_key.json")
	if err := os.WriteFile(keyFile, bz, 0o600); err != nil {
		return nil, err
	}
	v := viper.New()
	v.Set("goat.geth", front.Sock)
	v.Set("priv_validator_key_file", keyFile)
	v.Set("home", dir)
	mm := 10
	if w.Cfg.MempoolMax > 0 {
		mm = w.Cfg.MempoolMax
	}
	v.Set("mempool.max-txs", mm)
	v.Set("minimum-gas-prices", "0gas")
	v.Set("pruning", "nothing")
	v.Set("chain-id", w.Cfg.ChainID)
	opts := appOpts{v}
	a, err := app.New(log.NewNopLogger(), db, nil, true, opts, server.DefaultBaseappOptions(opts)...)
	if err != nil {
		front.Close()
		return nil, err
	}
	if w.cdc == nil {
		w.cdc = a.AppCodec()
		w.txConfig = authtx.NewTxConfig(codec.NewProtoCodec(a.AppCodec().InterfaceRegistry()), authtx.DefaultSignModes)
	}
	if w.GenState == nil {
		if err := w.buildGenesis(a.AppCodec()); err != nil {
			return nil, err
		}
	}
	return &Node{W: w, Idx: idx, App: a, DB: db, Dir: dir, EL: front, dbDir: dbDir}, nil
}

// StartNode opens a fresh node for validator idx and runs InitChain on it.
func (w *World) StartNode(idx int) (*Node, error) {
	db, dbDir, err := w.NewDB(fmt.Sprintf("%d-%d", idx, nodeSeq))
	if err != nil {
		return nil, err
	}
	n, err := w.OpenNode(idx, db, dbDir)
	if err != nil {
		return nil, err
	}
	if _, err := n.InitChain(); err != nil {
		return nil, err
	}
	return n, nil
}

func (n *Node) InitChain() (*abci.ResponseInitChain, error) {
	w := n.W
	return n.App.InitChain(&abci.RequestInitChain{
		Time: w.Cfg.GenTime, ChainId: w.Cfg.ChainID, ConsensusParams: &w.ConsParams, AppStateBytes: w.GenState, InitialHeight: 1,
	})
}

// Close releases the node's endpoint (the DB stays usable for a restart).
func (n *Node) Close() {
	n.EL.Close()
}

// Restart simulates a process crash/restart: the in-memory application is
// dropped and a new one is opened on the same database. With DiskDB the
// goleveldb directory is closed and reopened.
func (n *Node) Restart() (*Node, error) {
	n.EL.Close()
	db := n.DB
	if n.W.Cfg.DiskDB {
		if err := n.App.Close(); err != nil {
			return nil, fmt.Errorf("close app: %w", err)
		}
		var err error
		db, err = dbm.NewGoLevelDB("application", n.dbDir, nil)
		if err != nil {
			return nil, err
		}
	}
	nn, err := n.W.OpenNode(n.Idx, db, n.dbDir)
	if err != nil {
		return nil, err
	}
	// keep the scripted state of the endpoint
	nn.EL.next = n.EL.next
	return nn, nil
}

func (w *World) Codec() codec.Codec        { return w.cdc }
func (w *World) TxConfig() client.TxConfig { return w.txConfig }
