// Package world runs the real goat application (app.App) inside a simulated
// surrounding: the harness plays CometBFT, the execution layer, the relayer
// group and the Bitcoin chain.  Everything random is derived from one seed.
package world

import (
	"crypto/sha256"
	"encoding/binary"
	"math/rand"

	cmtsecp "github.com/cometbft/cometbft/crypto/secp256k1"
	"github.com/cosmos/cosmos-sdk/crypto/keys/secp256k1"
	sdk "github.com/cosmos/cosmos-sdk/types"
	goatcrypto "github.com/goatnetwork/goat/pkg/crypto"
	blst "github.com/supranational/blst/bindings/go"
)

// derive returns 32 deterministic bytes for (seed, label, index).
func derive(seed uint64, label string, idx int) []byte {
	h := sha256.New()
	var b [16]byte
	binary.LittleEndian.PutUint64(b[:8], seed)
	binary.LittleEndian.PutUint64(b[8:], uint64(idx))
	h.Write(b[:])
	h.Write([]byte(label))
	return h.Sum(nil)
}

// Derive exposes the deterministic byte derivation to the checks.
func Derive(seed uint64, label string, idx int) []byte { return derive(seed, label, idx) }

// NewRand returns a deterministic PRNG for (seed, label, idx).
func NewRand(seed uint64, label string, idx int) *rand.Rand {
	d := derive(seed, label, idx)
	return rand.New(rand.NewSource(int64(binary.LittleEndian.Uint64(d[:8]) >> 1)))
}

// ValKey is a consensus validator key (secp256k1, as goat uses).
type ValKey struct {
	Priv cmtsecp.PrivKey
	Pub  *secp256k1.PubKey // cosmos flavour of the same key
	Cons []byte            // consensus address == account address bytes
}

func NewValKey(seed uint64, label string, idx int) ValKey {
	d := derive(seed, "val/"+label, idx)
	// keep it a valid scalar: cmtsecp.GenPrivKeySecp256k1 hashes the secret into range
	p := cmtsecp.GenPrivKeySecp256k1(d)
	return ValKey{Priv: p, Pub: &secp256k1.PubKey{Key: p.PubKey().Bytes()}, Cons: p.PubKey().Address()}
}

// Member is one relayer group member.
type Member struct {
	Tx      *secp256k1.PrivKey
	BLS     *goatcrypto.PrivateKey
	BLSPub  []byte // compressed G2
	Addr    sdk.AccAddress
	AddrStr string
}

func NewMember(seed uint64, label string, idx int) *Member {
	d := derive(seed, "rel-tx/"+label, idx)
	tx := &secp256k1.PrivKey{Key: cmtsecp.GenPrivKeySecp256k1(d)}
	b := derive(seed, "rel-bls/"+label, idx)
	sk := blst.KeyGenV3(b)
	m := &Member{Tx: tx, BLS: sk}
	m.BLSPub = new(goatcrypto.PublicKey).From(sk).Compress()
	m.Addr = sdk.AccAddress(tx.PubKey().Address())
	m.AddrStr = m.Addr.String() // bech32 prefix "goat" is set by package app's init
	return m
}

func cmtsecpPub(b []byte) cmtsecp.PubKey { return cmtsecp.PubKey(append([]byte(nil), b...)) }

func secpPriv(p cmtsecp.PrivKey) *secp256k1.PrivKey {
	return &secp256k1.PrivKey{Key: append([]byte(nil), p...)}
}
