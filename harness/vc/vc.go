// Package vc is the small framework every property check is written against:
// a check is a fixed list of cases determined by (seed, tier); workers execute
// disjoint slices of that list in separate processes and write partial results.
package vc

import (
	"encoding/json"
	"fmt"
	"os"
	"runtime/debug"
	"sort"
	"strings"
	"sync"
	"time"
)

// Violation is one observed execution that contradicts the property.
type Violation struct {
	Prop   string `json:"property"`
	Sig    string `json:"signature"` // stable description of *what* fails (matched against known findings)
	Detail string `json:"detail"`
	Case   int    `json:"case"`
	Seed   uint64 `json:"seed"`
	Tier   string `json:"tier"`
	Replay any    `json:"replay,omitempty"` // case-specific data (operations up to the violating step)
}

// Result is what one worker reports.
type Result struct {
	Prop         string           `json:"property"`
	Tier         string           `json:"tier"`
	Seed         uint64           `json:"seed"`
	Worker       int              `json:"worker"`
	Workers      int              `json:"workers"`
	Cases        int              `json:"cases"`
	Evaluations  int64            `json:"evaluations"`
	Descriptors  map[string]int64 `json:"descriptors"` // distinct non-trivial case descriptors -> count
	Counters     map[string]int64 `json:"counters"`
	Samples      []any            `json:"samples"`
	Violations   []Violation      `json:"violations"`
	Inconclusive []string         `json:"inconclusive"`
	Exhaustive   bool             `json:"exhaustive"`
	WallS        float64          `json:"wall_s"`
}

// Ctx is handed to a check's Run function.
type Ctx struct {
	Prop    string
	Tier    string
	Seed    uint64
	Case    int
	mu      sync.Mutex
	res     *Result
	maxSamp int
}

// Thorough reports whether the thorough tier is running.
func (c *Ctx) Thorough() bool { return c.Tier == "thorough" }

// Pick returns q in the quick tier and t in the thorough tier.
func (c *Ctx) Pick(q, t int) int {
	if c.Thorough() {
		return t
	}
	return q
}

// Eval counts n oracle evaluations (cases generated / executions judged).
func (c *Ctx) Eval(n int) {
	c.mu.Lock()
	c.res.Evaluations += int64(n)
	c.mu.Unlock()
}

// Nontrivial records the abstract descriptor of a non-trivial case.
func (c *Ctx) Nontrivial(format string, a ...any) {
	d := fmt.Sprintf(format, a...)
	c.mu.Lock()
	c.res.Descriptors[d]++
	c.mu.Unlock()
}

// Count adds n to a named observation counter.
func (c *Ctx) Count(name string, n int) {
	c.mu.Lock()
	c.res.Counters[name] += int64(n)
	c.mu.Unlock()
}

// Sample keeps a few concrete cases for the evidence file.
func (c *Ctx) Sample(v any) {
	c.mu.Lock()
	if len(c.res.Samples) < c.maxSamp {
		c.res.Samples = append(c.res.Samples, v)
	}
	c.mu.Unlock()
}

// Violation records a contradiction of the property.
func (c *Ctx) Violation(sig, detail string, replay any) {
	c.mu.Lock()
	defer c.mu.Unlock()
	// keep at most a few per signature
	n := 0
	for _, v := range c.res.Violations {
		if v.Sig == sig {
			n++
		}
	}
	c.res.Counters["violations_seen"]++
	if n >= 3 {
		return
	}
	c.res.Violations = append(c.res.Violations, Violation{Prop: c.Prop, Sig: sig, Detail: detail, Case: c.Case, Seed: c.Seed, Tier: c.Tier, Replay: replay})
}

// Inconclusive records that a control did not work or the harness failed.
func (c *Ctx) Inconclusive(format string, a ...any) {
	c.mu.Lock()
	if len(c.res.Inconclusive) < 20 {
		c.res.Inconclusive = append(c.res.Inconclusive, fmt.Sprintf("case %d: ", c.Case)+fmt.Sprintf(format, a...))
	}
	c.mu.Unlock()
}

// Exhaustive marks the enumerated part as completely covered.
func (c *Ctx) Exhaustive() { c.mu.Lock(); c.res.Exhaustive = true; c.mu.Unlock() }

// Check is one property's deciding machinery.
type Check struct {
	ID     string
	Title  string
	Level  string // exploration | fault_enumeration
	Rule   string // how cases are generated and what makes one non-trivial
	Assume []string
	// Cases returns the number of cases of the tier.
	Cases func(tier string) int
	// Run executes case i.
	Run func(c *Ctx, i int)
}

var registry = map[string]*Check{}

func Register(ch *Check)   { registry[ch.ID] = ch }
func Get(id string) *Check { return registry[id] }
func IDs() []string {
	var ids []string
	for k := range registry {
		ids = append(ids, k)
	}
	sort.Strings(ids)
	return ids
}

// RunWorker executes the worker's slice of the case list and writes the partial result.
func RunWorker(ch *Check, tier string, seed uint64, worker, workers, only int, out string) error {
	start := time.Now()
	res := &Result{Prop: ch.ID, Tier: tier, Seed: seed, Worker: worker, Workers: workers, Descriptors: map[string]int64{}, Counters: map[string]int64{}}
	n := ch.Cases(tier)
	flush := func() error {
		res.WallS = time.Since(start).Seconds()
		bz, err := json.MarshalIndent(res, "", " ")
		if err != nil {
			return err
		}
		tmp := out + ".tmp"
		if err := os.WriteFile(tmp, bz, 0o644); err != nil {
			return err
		}
		return os.Rename(tmp, out)
	}
	for i := 0; i < n; i++ {
		if only >= 0 {
			if i != only {
				continue
			}
		} else if i%workers != worker {
			continue
		}
		ctx := &Ctx{Prop: ch.ID, Tier: tier, Seed: seed, Case: i, res: res, maxSamp: 4}
		fmt.Fprintf(os.Stderr, "[%s w%d] case %d/%d\n", ch.ID, worker, i, n)
		func() {
			defer func() {
				if r := recover(); r != nil {
					st := string(debug.Stack())
					ctx.Inconclusive("harness panic: %v\n%s", r, trimStack(st))
				}
			}()
			ch.Run(ctx, i)
		}()
		res.Cases++
		// after every case: a later case that never returns (the watchdog ends the worker) must not take the verdicts of the
		// finished ones with it
		if err := flush(); err != nil {
			return err
		}
	}
	return flush()
}

func trimStack(s string) string {
	lines := strings.Split(s, "\n")
	if len(lines) > 60 {
		lines = lines[:60]
	}
	return strings.Join(lines, "\n")
}
