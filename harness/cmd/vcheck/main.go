// vcheck executes one worker's share of a property check (see /verif/check).
package main

import (
	"encoding/json"
	"flag"
	"fmt"
	"os"
	"strconv"
	"strings"

	_ "verif/harness/checks"
	"verif/harness/vc"
	"verif/harness/world"
)

func main() {
	prop := flag.String("prop", "", "property id")
	tier := flag.String("tier", "quick", "quick|thorough")
	seed := flag.Uint64("seed", 1, "seed")
	worker := flag.Int("worker", 0, "worker index")
	workers := flag.Int("workers", 1, "number of workers")
	only := flag.Int("case", -1, "run only this case")
	out := flag.String("out", "", "partial result file")
	info := flag.Bool("info", false, "print check metadata as JSON")
	replica := flag.String("replica", "", "re-execute a recorded history (file) and write the outcomes to -out")
	mode := flag.String("mode", "fresh", "replica mode: fresh|restart|twice|kill")
	dbdir := flag.String("dbdir", "", "kill mode: goleveldb directory that survives the process")
	killat := flag.String("killat", "", "kill mode: crash point height:phase:delay_us (empty: run to the end)")
	flag.Parse()
	if *replica != "" {
		rec, err := world.LoadRecording(*replica)
		if err != nil {
			fmt.Fprintln(os.Stderr, "replica:", err)
			os.Exit(3)
		}
		if *mode == "kill" {
			var kp *world.KillPoint
			if *killat != "" {
				kp = &world.KillPoint{}
				parts := strings.Split(*killat, ":")
				if len(parts) != 3 {
					fmt.Fprintln(os.Stderr, "replica: bad -killat")
					os.Exit(3)
				}
				kp.Height, _ = strconv.ParseInt(parts[0], 10, 64)
				kp.Phase = parts[1]
				kp.DelayUS, _ = strconv.Atoi(parts[2])
			}
			if err := world.ReplayKill(rec, *dbdir, *out, kp); err != nil {
				fmt.Fprintln(os.Stderr, "replica:", err)
				os.Exit(3)
			}
			return
		}
		outs, err := world.Replay(rec, *mode)
		if err != nil {
			fmt.Fprintln(os.Stderr, "replica:", err)
			os.Exit(3)
		}
		bz, _ := json.Marshal(outs)
		if err := os.WriteFile(*out, bz, 0o644); err != nil {
			fmt.Fprintln(os.Stderr, "replica:", err)
			os.Exit(3)
		}
		if *mode == "busy" {
			st, _ := json.Marshal(map[string]int64{"check_tx": world.BusyStats.Checks.Load(), "simulations": world.BusyStats.Sims.Load(), "simulations_ok": world.BusyStats.SimsOK.Load(), "queries": world.BusyStats.Queries.Load()})
			_ = os.WriteFile(*out+".busy", st, 0o644)
		}
		return
	}
	if *info {
		m := map[string]any{}
		for _, id := range vc.IDs() {
			ch := vc.Get(id)
			m[id] = map[string]any{"title": ch.Title, "level": ch.Level, "rule": ch.Rule, "assumptions": ch.Assume,
				"cases_quick": ch.Cases("quick"), "cases_thorough": ch.Cases("thorough")}
		}
		bz, _ := json.MarshalIndent(m, "", " ")
		fmt.Println(string(bz))
		return
	}
	ch := vc.Get(*prop)
	if ch == nil {
		fmt.Fprintf(os.Stderr, "unknown property %q; have %v\n", *prop, vc.IDs())
		os.Exit(3)
	}
	if *out == "" {
		fmt.Fprintln(os.Stderr, "-out required")
		os.Exit(3)
	}
	if err := vc.RunWorker(ch, *tier, *seed, *worker, *workers, *only, *out); err != nil {
		fmt.Fprintln(os.Stderr, "worker error:", err)
		os.Exit(3)
	}
}
