package checks

import (
	"fmt"
	"math/big"

	"github.com/ethereum/go-ethereum/core/types/goattypes"
	bitcointypes "github.com/goatnetwork/goat/x/bitcoin/types"

	"verif/harness/vc"
	"verif/harness/world"
)

var c20Values = []uint64{0, 1, 999, 1000, 1001, 9_999, 10_000, 10_001, 100_000_000, 100_000_001, 1 << 32, 1 << 63, ^uint64(0)}

func c20History(c *vc.Ctx, idx int) {
	// the bounds hold on every network the module knows
	network := []string{"regtest", "signet", "testnet3", "mainnet"}[idx%4]
	cfg := lockCfg{Label: "c20", NVals: 1, Blocks: c.Pick(50, 120), Protect0: true, NRelayers: 1 + idx%2, W: lockWeights{},
		Bitcoin: func(g *bitcointypes.GenesisState) { g.Params.NetworkName = network }}
	c.Count("histories_on_"+network, 1)
	lh, err := newLockHistSchnorr(c, cfg, idx, idx%2 == 1)
	if err != nil {
		c.Inconclusive("setup: %v", err)
		return
	}
	defer lh.close()
	lh.crashFn = func(cr *world.ErrCrash) {
		c.Violation("block processing failed on parameter requests", cr.Error(), lh.replay())
	}
	b := newBridgeHist(lh)
	c03Monitor(b)
	// consequences on the execution-layer side
	inner := b.onDeliver
	b.onDeliver = func(st world.SysTx, blk *world.Block) {
		inner(st, blk)
		if d, ok := st.Tx.(*goattypes.DepositTx); ok {
			c.Eval(1)
			if d.Amount.Sign() <= 0 {
				b.viol("a deposit was credited with amount zero", fmt.Sprintf("%x/%d", d.Txid[:], d.TxOut))
			}
			if t := b.byID[fmt.Sprintf("%x/%d", d.Txid[:], d.TxOut)]; t != nil {
				if t.Value < t.MinDeposit || t.Value <= 1000 {
					b.viol("a dust deposit was credited", fmt.Sprintf("value %d, minimum in force %d", t.Value, t.MinDeposit))
				}
				if new(big.Int).Div(d.Tax, bigE10).Cmp(new(big.Int).SetUint64(t.Value)) >= 0 {
					b.viol("deposit tax reaches the deposit value", fmt.Sprintf("value %d tax %s", t.Value, d.Tax))
				}
			}
			c.Count("deposit_consequences_checked", 1)
		}
	}
	r := lh.r
	if !lh.step() {
		return
	}
	// reference model of the three bounded parameters
	model := lh.post.Bitcoin.Params
	changedMin := false
	pick := func() uint64 {
		if r.Intn(4) == 0 {
			return r.Uint64() >> uint(r.Intn(64))
		}
		return c20Values[r.Intn(len(c20Values))]
	}
	muts := c03Mutators()
	b.mineDeposits(3, false)
	for blk := 0; blk < cfg.Blocks && !lh.failed; blk++ {
		if !b.refreshGroup() {
			return
		}
		var req goattypes.BridgeRequests
		next := model
		nextChangedMin := changedMin
		for k := r.Intn(4); k > 0; k-- {
			switch r.Intn(3) {
			case 0:
				rate, cap := pick(), pick()
				req.DepositTax = append(req.DepositTax, &goattypes.DepositTaxRequest{Rate: rate, Max: cap})
				if rate < 10_000 {
					next.DepositTaxRate = rate
				}
				lh.logf("EL: tax rate %d cap %d", rate, cap)
			case 1:
				n := pick()
				req.Confirmation = append(req.Confirmation, &goattypes.ConfirmationNumberRequest{Number: n})
				if n >= 1 {
					next.ConfirmationNumber = n
				}
				lh.logf("EL: confirmation %d", n)
			case 2:
				s := pick()
				req.MinDeposit = append(req.MinDeposit, &goattypes.MinDepositRequest{Satoshi: s})
				if s > 1000 {
					next.MinDepositAmount = s
					nextChangedMin = true
				}
				lh.logf("EL: min deposit %d", s)
			}
		}
		// keep deposits flowing: mine, vote, submit (values follow the parameters in force)
		switch {
		case blk%6 == 2:
			b.mineDeposits(2+r.Intn(4), false)
		}
		if op := b.hashesOp("next"); op != nil {
			b.ops = append(b.ops, op)
		}
		var fresh []*depTruth
		for _, d := range b.deps {
			if d.Block.Height <= b.votedTip && !d.Credited && d.Attempts < 4 {
				fresh = append(fresh, d)
			}
		}
		for k := 0; k < 3 && len(fresh) > 0; k++ {
			t := fresh[0]
			fresh = fresh[1:]
			t.Attempts++
			b.ops = append(b.ops, b.depositsOp([]*bitcointypes.Deposit{b.genuineDeposit(t)}, hdrsFor([]*depTruth{t}), "single", t.Value >= next.MinDepositAmount))
		}
		_ = muts
		b.bridgeReq = req
		if !b.runBlock() {
			return
		}
		if !lh.blk.BlockOK {
			b.viol("the block message failed on parameter requests", lh.blk.Resp.TxResults[0].Log)
			continue
		}
		model, changedMin = next, nextChangedMin
		c.Eval(1)
		var resp bitcointypes.QueryParamsResponse
		if err := lh.ch.Node().Query("/goat.bitcoin.v1.Query/Params", &bitcointypes.QueryParamsRequest{}, &resp); err != nil {
			c.Inconclusive("params query: %v", err)
			continue
		}
		p := resp.Params
		if p.DepositTaxRate >= 10_000 {
			b.viol("deposit tax rate reached 100 % or more", fmt.Sprint(p.DepositTaxRate))
		}
		if p.ConfirmationNumber < 1 {
			b.viol("confirmation depth dropped below one", fmt.Sprint(p.ConfirmationNumber))
		}
		if p.MinDepositAmount < 1000 || (changedMin && p.MinDepositAmount <= 1000) {
			b.viol("minimum deposit at or below the dust limit", fmt.Sprint(p.MinDepositAmount))
		}
		if p.DepositTaxRate != model.DepositTaxRate {
			b.viol("tax rate differs from the in-range requests applied in order", fmt.Sprintf("chain %d, requests imply %d", p.DepositTaxRate, model.DepositTaxRate))
			model.DepositTaxRate = p.DepositTaxRate
		}
		if p.ConfirmationNumber != model.ConfirmationNumber {
			b.viol("confirmation depth differs from the in-range requests applied in order", fmt.Sprintf("chain %d, requests imply %d", p.ConfirmationNumber, model.ConfirmationNumber))
			model.ConfirmationNumber = p.ConfirmationNumber
		}
		if p.MinDepositAmount != model.MinDepositAmount {
			b.viol("minimum deposit differs from the in-range requests applied in order", fmt.Sprintf("chain %d, requests imply %d", p.MinDepositAmount, model.MinDepositAmount))
			model.MinDepositAmount = p.MinDepositAmount
		}
		if len(req.DepositTax)+len(req.Confirmation)+len(req.MinDeposit) > 0 {
			c.Nontrivial("tax=%d conf=%d min=%d rate_class=%s min_class=%s", len(req.DepositTax), len(req.Confirmation), len(req.MinDeposit), classU(p.DepositTaxRate), classU(p.MinDepositAmount))
			c.Count("parameter_request_blocks_checked", 1)
		}
	}
	c.Sample(map[string]any{"final_params": fmt.Sprintf("%+v", lh.post.Bitcoin.Params), "deposits_mined": len(b.deps), "last_ops": lastN(lh.opsLog, 4)})
}

func classU(v uint64) string {
	switch {
	case v == 0:
		return "0"
	case v < 1000:
		return "<1000"
	case v <= 1001:
		return "~1000"
	case v < 10_000:
		return "<10000"
	case v < 1<<32:
		return "<2^32"
	}
	return ">=2^32"
}

func init() {
	vc.Register(&vc.Check{
		ID: "C20", Title: "Bridge parameters set from the execution layer stay within safe bounds", Level: "exploration",
		Rule: "one case = one history (50/120 blocks) with 0..3 tax / confirmation-depth / minimum-deposit requests per block, values from {0,1,999,1000,1001,9999,10000,10001,1e8,1e8+1,2^32,2^63,2^64-1} and random 64-bit numbers, interleaved with deposits whose values sit at the minimum +-1, 10000/10001, the cap edge, 2^40 and 2^62; after every commit Query/Params must have rate < 10000, depth >= 1, minimum >= 1000 (> 1000 once changed) and equal a reference model that applies exactly the in-range requests in order; every credited deposit seen by the execution layer must have amount > 0, tax < value, value >= the minimum in force (C03's oracle runs as well). " +
			"Non-trivial = a block with parameter requests; distinct = (request counts, classes of the resulting rate and minimum).",
		Assume: []string{"the tax cap is not bounded by the statement and is not judged"},
		Cases:  func(tier string) int { return map[string]int{"quick": 32, "thorough": 150}[tier] },
		Run:    func(c *vc.Ctx, i int) { c20History(c, i) },
	})
}
