package checks

import (
	"encoding/hex"
	"fmt"
	cmtsecp "github.com/cometbft/cometbft/crypto/secp256k1"
	"math/big"

	"github.com/btcsuite/btcd/chaincfg"
	"github.com/btcsuite/btcd/wire"
	sdk "github.com/cosmos/cosmos-sdk/types"
	"github.com/ethereum/go-ethereum/common"
	"github.com/ethereum/go-ethereum/core/types/goattypes"
	bitcointypes "github.com/goatnetwork/goat/x/bitcoin/types"
	relayertypes "github.com/goatnetwork/goat/x/relayer/types"

	"verif/harness/world"
)

var regtest = &chaincfg.RegressionNetParams

// stateStores are the module stores a failed relayer/bridge transaction must not touch.
var stateStores = []string{"relayer", "bitcoin", "locking", "goat"}

func hx(b []byte) string {
	if len(b) > 8 {
		return hex.EncodeToString(b[:8]) + ".."
	}
	return hex.EncodeToString(b)
}

// wdReq builds a withdrawal request to a P2WPKH address derived from (seed,id).
func wdReq(seed uint64, id uint64, amount, price uint64) (*goattypes.WithdrawalRequest, []byte) {
	// withdrawals 2k and 2k+1 ask for the same address: two batches may then carry interchangeable transactions, so a
	// payload moved from one id or batch to its twin stays valid in everything but the vote
	h := world.Derive(seed, "wd-addr", int(id/2))[:20]
	addr, script := world.P2WPKH(h, regtest)
	return &goattypes.WithdrawalRequest{Id: id, Amount: amount, TxPrice: price, Address: addr}, script
}

// payoutTx builds a Bitcoin transaction paying the given (script, value) pairs, plus an optional change output.
func payoutTx(bc *world.BtcChain, outs []*wire.TxOut) *wire.MsgTx {
	return bc.FillerTx(outs...)
}

func bigOne() *big.Int { return new(big.Int).SetUint64(1_000_000_000_000_000_000) }

func addrOf(b []byte) common.Address { return common.BytesToAddress(b) }

// voteKinds are the five message kinds that need a vote.
var voteKinds = []string{"hashes", "pubkey", "process", "replace", "consolidation"}

// voteMsg is any of the five voted messages with a settable vote.
type voteMsg interface {
	sdk.Msg
	relayertypes.IVoteMsg
}

func setVote(m voteMsg, v *relayertypes.Votes) {
	switch t := m.(type) {
	case *bitcointypes.MsgNewBlockHashes:
		t.Vote = v
	case *bitcointypes.MsgNewPubkey:
		t.Vote = v
	case *bitcointypes.MsgProcessWithdrawal:
		t.Vote = v
	case *bitcointypes.MsgReplaceWithdrawal:
		t.Vote = v
	case *bitcointypes.MsgNewConsolidation:
		t.Vote = v
	default:
		panic(fmt.Sprintf("setVote: %T", m))
	}
}

func setProposer(m voteMsg, p string) {
	switch t := m.(type) {
	case *bitcointypes.MsgNewBlockHashes:
		t.Proposer = p
	case *bitcointypes.MsgNewPubkey:
		t.Proposer = p
	case *bitcointypes.MsgProcessWithdrawal:
		t.Proposer = p
	case *bitcointypes.MsgReplaceWithdrawal:
		t.Proposer = p
	case *bitcointypes.MsgNewConsolidation:
		t.Proposer = p
	}
}

// bridgeModel is the harness's own bookkeeping of bridge state needed to build payloads that
// are valid apart from the vote (ground truth owned by the generator).
type bridgeModel struct {
	seed     uint64
	bc       *world.BtcChain
	tip      uint64 // voted bitcoin tip
	nextWd   uint64 // next pending withdrawal id not yet processed
	maxWd    uint64 // number of withdrawals requested so far
	wdAmount uint64
	lastPid  int64 // last processing id created (-1 none)
	lastFee  uint64
	maxFee   uint64 // highest fee of any batch so far: a replacement above it is a fee bump for every batch
	pids     uint64
	keyCtr   int
	relKey   *relayertypes.PublicKey
	wdOfPid  map[uint64]uint64
}

func newBridgeModel(seed uint64, relKey *relayertypes.PublicKey) *bridgeModel {
	return &bridgeModel{seed: seed, bc: world.NewBtcChain(), lastPid: -1, wdAmount: 100_000, relKey: relKey, wdOfPid: map[uint64]uint64{}}
}

// withdrawRequests scripts n new withdrawal requests.
func (m *bridgeModel) withdrawRequests(n int) []*goattypes.WithdrawalRequest {
	var out []*goattypes.WithdrawalRequest
	for i := 0; i < n; i++ {
		r, _ := wdReq(m.seed, m.maxWd, m.wdAmount, 50)
		out = append(out, r)
		m.maxWd++
	}
	return out
}

// payload builds a message of the given kind that is valid for the current bridge state.
// ok=false means no valid payload of that kind exists right now.
func (m *bridgeModel) payload(kind, proposer string, salt int) (msg voteMsg, ok bool) {
	switch kind {
	case "hashes":
		n := 1 + salt%3
		switch salt % 8 {
		case 7:
			n = 0 // an empty batch passes validation: it changes nothing but is a voted proposal like any other
		case 6:
			n = 16 // the largest batch
		}
		mm := &bitcointypes.MsgNewBlockHashes{Proposer: proposer, StartBlockNumber: m.tip + 1}
		for i := 0; i < n; i++ {
			mm.BlockHash = append(mm.BlockHash, world.Derive(m.seed, fmt.Sprintf("hash/%d/%d", m.tip, salt), i))
		}
		return mm, true
	case "pubkey":
		m.keyCtr++
		k := world.BtcPubKey(world.Derive(m.seed, "newkey", m.keyCtr*1000+salt), salt%2 == 1)
		return &bitcointypes.MsgNewPubkey{Proposer: proposer, Pubkey: k}, true
	case "process":
		if m.nextWd >= m.maxWd {
			return nil, false
		}
		_, script := wdReq(m.seed, m.nextWd, 0, 0)
		tx := m.bc.FillerTx(wire.NewTxOut(int64(m.wdAmount-1000-uint64(salt%7)), script), wire.NewTxOut(3000, world.SystemScript(m.relKey)))
		return &bitcointypes.MsgProcessWithdrawal{Proposer: proposer, Id: []uint64{m.nextWd}, NoWitnessTx: world.NoWitness(tx), TxFee: 1000}, true
	case "replace":
		if m.lastPid < 0 {
			return nil, false
		}
		wid := m.wdOfPid[uint64(m.lastPid)]
		_, script := wdReq(m.seed, wid, 0, 0)
		tx := m.bc.FillerTx(wire.NewTxOut(int64(m.wdAmount-2000-uint64(salt%7)), script))
		return &bitcointypes.MsgReplaceWithdrawal{Proposer: proposer, Pid: uint64(m.lastPid), NewNoWitnessTx: world.NoWitness(tx), NewTxFee: max(m.lastFee, m.maxFee) + 1 + uint64(salt%5)}, true
	case "consolidation":
		tx := m.bc.FillerTx(wire.NewTxOut(int64(50_000+salt), world.SystemScript(m.relKey)))
		return &bitcointypes.MsgNewConsolidation{Proposer: proposer, NoWitnessTx: world.NoWitness(tx)}, true
	}
	return nil, false
}

// accepted updates the model after the chain accepted msg.
func (m *bridgeModel) accepted(msg voteMsg) {
	switch t := msg.(type) {
	case *bitcointypes.MsgNewBlockHashes:
		m.tip += uint64(len(t.BlockHash))
	case *bitcointypes.MsgProcessWithdrawal:
		m.lastPid = int64(m.pids)
		m.wdOfPid[m.pids] = t.Id[0]
		m.pids++
		m.lastFee = t.TxFee
		m.maxFee = max(m.maxFee, t.TxFee)
		m.nextWd++
	case *bitcointypes.MsgReplaceWithdrawal:
		m.lastFee = t.NewTxFee
		m.maxFee = max(m.maxFee, t.NewTxFee)
	case *bitcointypes.MsgNewPubkey:
		m.relKey = t.Pubkey
	}
}

// mutatePayloadField changes one field of the payload after signing (the vote then covers other content). Every field
// the vote must bind is reachable through k; where the model knows a twin (another id or batch that the same Bitcoin
// transaction would satisfy) the changed message stays valid in everything but its vote. Returns what was changed.
func mutatePayloadField(msg voteMsg, k int, m *bridgeModel) string {
	switch t := msg.(type) {
	case *bitcointypes.MsgNewBlockHashes:
		n := len(t.BlockHash)
		switch {
		case n == 0:
		case k%5 == 1: // the last hash
			h := append([]byte(nil), t.BlockHash[n-1]...)
			h[31] ^= 0x80
			t.BlockHash = append(append([][]byte{}, t.BlockHash[:n-1]...), h)
			return "last hash"
		case k%5 == 2 && n >= 3: // a hash in the middle
			h := append([]byte(nil), t.BlockHash[n/2]...)
			h[7] ^= 4
			cp := append([][]byte{}, t.BlockHash...)
			cp[n/2] = h
			t.BlockHash = cp
			return "middle hash"
		case k%5 == 3 && n >= 2: // one hash fewer (same start, same first hashes)
			t.BlockHash = append([][]byte{}, t.BlockHash[:n-1]...)
			return "one hash fewer"
		case k%5 == 4 && n < 16: // one hash more
			t.BlockHash = append(append([][]byte{}, t.BlockHash...), world.Derive(7, "mut-extra-hash", int(t.StartBlockNumber)))
			return "one hash more"
		}
	case *bitcointypes.MsgProcessWithdrawal:
		if m != nil && k%3 == 1 && len(t.Id) == 1 {
			twin := t.Id[0] ^ 1
			if twin < m.maxWd && twin >= m.nextWd {
				t.Id = []uint64{twin}
				return "withdrawal id -> the twin id with the same address"
			}
		}
		if k%3 == 2 {
			tx := append([]byte(nil), t.NoWitnessTx...)
			tx[len(tx)-1] ^= 1 // lock time: same outputs, another transaction
			t.NoWitnessTx = tx
			return "transaction (lock time)"
		}
	case *bitcointypes.MsgReplaceWithdrawal:
		if m != nil && k%3 == 1 && t.Pid > 0 {
			if a, ok1 := m.wdOfPid[t.Pid]; ok1 {
				if b, ok2 := m.wdOfPid[t.Pid-1]; ok2 && a/2 == b/2 {
					t.Pid--
					return "batch id -> the twin batch whose withdrawal has the same address"
				}
			}
		}
		if k%3 == 2 {
			tx := append([]byte(nil), t.NewNoWitnessTx...)
			tx[len(tx)-1] ^= 1
			t.NewNoWitnessTx = tx
			return "transaction (lock time)"
		}
	}
	mutatePayload(msg)
	return "default field"
}

// mutatePayload changes the payload after signing (the vote then covers other content).
func mutatePayload(msg voteMsg) {
	switch t := msg.(type) {
	case *bitcointypes.MsgNewBlockHashes:
		if len(t.BlockHash) == 0 {
			t.BlockHash = [][]byte{world.Derive(7, "mut-hash", int(t.StartBlockNumber))}
			return
		}
		h := append([]byte(nil), t.BlockHash[0]...)
		h[0] ^= 1
		t.BlockHash = append([][]byte{h}, t.BlockHash[1:]...)
	case *bitcointypes.MsgNewPubkey:
		t.Pubkey = world.BtcPubKey(world.Derive(7, "mut", len(t.Pubkey.String())), false)
	case *bitcointypes.MsgProcessWithdrawal:
		t.TxFee++
	case *bitcointypes.MsgReplaceWithdrawal:
		t.NewTxFee++
	case *bitcointypes.MsgNewConsolidation:
		tx := append([]byte(nil), t.NoWitnessTx...)
		tx[len(tx)-1] ^= 1 // lock time
		t.NoWitnessTx = tx
	}
}

type sdkMsg = sdk.Msg

func bridgeReqs(ws []*goattypes.WithdrawalRequest) goattypes.BridgeRequests {
	return goattypes.BridgeRequests{Withdraws: ws}
}

type cmtPub = cmtsecp.PubKey

type wireTxOut = wire.TxOut

type bigInt = big.Int

var bigE10 = big.NewInt(10_000_000_000)

func sdkAcc(addr []byte) string { return sdk.AccAddress(addr).String() }

type wireMsgTx = wire.MsgTx

func wireOut(v int64, script []byte) *wire.TxOut { return wire.NewTxOut(v, script) }
