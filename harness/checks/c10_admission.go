package checks

import (
	"fmt"
	"reflect"
	"sort"
	"strings"
	"time"

	abci "github.com/cometbft/cometbft/abci/types"
	cryptotypes "github.com/cosmos/cosmos-sdk/crypto/types"
	sdk "github.com/cosmos/cosmos-sdk/types"
	"github.com/cosmos/gogoproto/proto"

	"verif/harness/vc"
	"verif/harness/world"
)

// C10: which transactions pass the door, in every execution mode. The message types are read
// from the application's interface registry at run time.

type c10Signer struct {
	name   string
	priv   cryptotypes.PrivKey
	addr   sdk.AccAddress
	exists bool
}

type c10Tx struct {
	desc        string
	types       []string
	signer      string
	memo        string
	timeout     string
	sig         string
	raw         []byte
	expCheck    int // 1 admit, 0 refuse, 2 either
	expBlock    int // process / finalise
	isBlock     bool
	hasBlockMsg bool
	addr        sdk.AccAddress
}

// signerField returns the name of the field that designates the signer.
func signerFieldOf(typeURL string) string {
	if strings.Contains(typeURL, "MsgUpdateParams") {
		return "Authority"
	}
	return "Proposer"
}

func newMsg(w *world.World, typeURL, signer string) (sdk.Msg, error) {
	m, err := w.Codec().InterfaceRegistry().Resolve(typeURL)
	if err != nil {
		return nil, err
	}
	v := reflect.ValueOf(m).Elem()
	f := v.FieldByName(signerFieldOf(typeURL))
	if !f.IsValid() || f.Kind() != reflect.String {
		return nil, fmt.Errorf("no signer field in %s", typeURL)
	}
	f.SetString(signer)
	msg, ok := m.(sdk.Msg)
	if !ok {
		return nil, fmt.Errorf("%s is not a Msg", typeURL)
	}
	return msg, nil
}

func inBridgeNamespaces(typeURL string) bool {
	n := strings.TrimPrefix(typeURL, "/")
	return strings.HasPrefix(n, "goat.bitcoin.") || strings.HasPrefix(n, "goat.relayer.")
}

func c10Types(w *world.World) []string {
	t := w.Codec().InterfaceRegistry().ListImplementations(sdk.MsgInterfaceProtoName)
	sort.Strings(t)
	return t
}

func c10Case(c *vc.Ctx, idx int) {
	w, err := world.New(world.Config{Seed: c.Seed, Label: fmt.Sprintf("c10-%d", idx), NVals: 2, NRelayers: 3})
	if err != nil {
		c.Inconclusive("world: %v", err)
		return
	}
	ch, err := world.NewChain(w)
	if err != nil {
		c.Inconclusive("chain: %v", err)
		w.Cleanup()
		return
	}
	defer ch.Close()
	tw, err := world.NewChain(w)
	if err != nil {
		c.Inconclusive("twin: %v", err)
		return
	}
	defer func() {
		for _, n := range tw.Nodes {
			n.Close()
		}
	}()
	for i := 0; i < 2; i++ {
		b, err := ch.Step(world.StepOpts{})
		if err != nil {
			c.Inconclusive("warm-up: %v", err)
			return
		}
		if _, err := tw.Apply(b, b.Req.Txs); err != nil {
			c.Inconclusive("twin warm-up: %v", err)
			return
		}
	}
	types := c10Types(w)
	if len(types) < 10 {
		c.Inconclusive("only %d message types registered", len(types))
		return
	}
	c.Count("registered_message_types", len(types))
	if idx == 0 && len(types) > c.Pick(16, 32) {
		c.Inconclusive("%d message types are registered but the case list covers only %d", len(types), c.Pick(16, 32))
	}
	stranger := world.NewMember(c.Seed, "c10-stranger", idx)
	signers := []c10Signer{
		{"relayer-proposer", w.Members[0].Tx, w.Members[0].Addr, true},
		{"other-voter", w.Members[1].Tx, w.Members[1].Addr, true},
		{"validator", w.ValPriv(1), sdk.AccAddress(w.Vals[1].Cons), true},
		{"unknown-account", stranger.Tx, stranger.Addr, false},
	}
	viol := func(sig, detail string, t c10Tx) {
		c.Violation(sig, detail, map[string]any{"tx": t.desc, "types": t.types})
	}
	// this worker's share of the type list: case idx handles types[idx % len] and the pairs starting with it
	ti := idx % len(types)
	typ := types[ti]
	// fee fields of the next transaction built: a payer other than the signer is a second required signer (refused
	// everywhere, the block message included); the signer named as its own payer, or a granter, adds no signer
	var payer, granter *c10Signer
	build := func(tys []string, sg c10Signer, second *c10Signer, memo, tmo, sigv string) (c10Tx, bool) {
		H := uint64(ch.Height)
		t := c10Tx{types: tys, signer: sg.name, memo: memo, timeout: tmo, sig: sigv, addr: sg.addr}
		var msgs []sdk.Msg
		for i, ty := range tys {
			who := sg.addr.String()
			if second != nil && i == 1 {
				who = second.addr.String()
			}
			m, err := newMsg(w, ty, who)
			if err != nil {
				return t, false
			}
			msgs = append(msgs, m)
		}
		num, seq, _ := ch.Account(sg.addr)
		spec := world.TxSpec{Msgs: msgs, Priv: sg.priv, AccNum: num, Seq: seq, Memo: memo}
		switch tmo {
		case "none":
		case "last-height":
			spec.Timeout = H
		case "next-height":
			spec.Timeout = H + 1
		case "later":
			spec.Timeout = H + 2
		}
		switch sigv {
		case "wrong-key":
			spec.PubKey = sg.priv.PubKey()
			spec.Priv = stranger.Tx
			if !sg.exists {
				spec.Priv = w.Members[2].Tx
			}
		case "wrong-sequence":
			spec.Seq = seq + 1
		case "wrong-chain-id":
			spec.ChainID = "goat-elsewhere-7"
		}
		if second != nil {
			n2, s2, _ := ch.Account(second.addr)
			spec.Extra = []world.ExtraSigner{{Priv: second.priv, AccNum: n2, Seq: s2}}
		}
		twoSigners := second != nil
		feeNote := ""
		if payer != nil {
			spec.FeePayer = payer.addr
			feeNote = " fee-payer=" + payer.name
			if !payer.addr.Equals(sg.addr) {
				n2, s2, _ := ch.Account(payer.addr)
				spec.Extra = append(spec.Extra, world.ExtraSigner{Priv: payer.priv, AccNum: n2, Seq: s2})
				twoSigners = true
			} else {
				feeNote = " fee-payer=itself"
			}
		}
		if granter != nil {
			spec.FeeGranter = granter.addr
			feeNote += " fee-granter=" + granter.name
		}
		raw, err := w.SignTx(spec)
		if err != nil {
			return t, false
		}
		t.raw = raw
		allBridge := true
		for _, ty := range tys {
			if !inBridgeNamespaces(ty) {
				allBridge = false
			}
		}
		t.isBlock = len(tys) == 1 && strings.HasSuffix(tys[0], "MsgNewEthBlock")
		base := sg.exists && sigv == "valid" && memo == "" && !twoSigners
		door := base && allBridge && sg.name == "relayer-proposer"
		t.expCheck, t.expBlock = 0, 0
		if door {
			switch tmo {
			case "none", "next-height", "later":
				t.expCheck, t.expBlock = 1, 1
			case "last-height":
				t.expCheck, t.expBlock = 2, 0 // cannot enter the next block; the mempool may or may not keep it for now
			}
		}
		// inside a block every message must be either a bridge/relayer message of the relayer proposer or the
		// execution-block message with timeout = that block's height (the statement does not ask the latter to be alone)
		hasBlockMsg := false
		insideOK := base
		for _, ty := range tys {
			switch {
			case strings.HasSuffix(ty, "MsgNewEthBlock"):
				hasBlockMsg = true
				if tmo != "next-height" {
					insideOK = false
				}
			case inBridgeNamespaces(ty):
				if sg.name != "relayer-proposer" {
					insideOK = false
				}
			default:
				insideOK = false
			}
		}
		if hasBlockMsg {
			t.hasBlockMsg = true
			t.expBlock = 0
			if insideOK {
				t.expBlock = 1
			}
		}
		t.desc = fmt.Sprintf("%v signer=%s memo=%q timeout=%s sig=%s%s", shortTypes(tys), sg.name, memo, tmo, sigv, feeNote)
		if feeNote != "" {
			c.Count("transactions_with_fee_payer_or_granter", 1)
		}
		return t, true
	}
	var txs []func() (c10Tx, bool) // built lazily: height and sequences move while the list is worked off
	for _, sg := range signers {
		for _, memo := range []string{"", "x"} {
			for _, tmo := range []string{"none", "last-height", "next-height", "later"} {
				for _, sigv := range []string{"valid", "wrong-key", "wrong-sequence", "wrong-chain-id"} {
					blockEnvelope := strings.HasSuffix(typ, "MsgNewEthBlock") && memo == "" && tmo == "next-height"
					if !c.Thorough() && sigv != "valid" && (memo != "" || tmo != "none") && !blockEnvelope {
						continue // quick tier: signature variants on the plain envelope only (and on the block message's own envelope)
					}
					sg, memo, tmo, sigv := sg, memo, tmo, sigv
					txs = append(txs, func() (c10Tx, bool) { return build([]string{typ}, sg, nil, memo, tmo, sigv) })
				}
			}
		}
	}
	// ordered pairs (this type first), single signer = relayer proposer; then two-signer transactions
	for _, t2 := range types {
		t2 := t2
		txs = append(txs, func() (c10Tx, bool) { return build([]string{typ, t2}, signers[0], nil, "", "none", "valid") })
		isBlk := strings.HasSuffix(typ, "MsgNewEthBlock") || strings.HasSuffix(t2, "MsgNewEthBlock")
		if c.Thorough() || isBlk {
			// the block message is admissible only with timeout = the block's height: combinations with it are judged
			// under that timeout in every tier, for the relayer proposer and for a validator (the usual author)
			txs = append(txs, func() (c10Tx, bool) { return build([]string{typ, t2}, signers[0], nil, "", "next-height", "valid") })
			if isBlk {
				txs = append(txs, func() (c10Tx, bool) { return build([]string{typ, t2}, signers[2], nil, "", "next-height", "valid") })
			}
		}
	}
	if strings.HasSuffix(typ, "MsgNewEthBlock") {
		// three messages: the block message first, then a bridge message and a message of a foreign module
		for _, t2 := range types {
			if inBridgeNamespaces(t2) || strings.HasSuffix(t2, "MsgNewEthBlock") {
				continue
			}
			t2 := t2
			for _, si := range []int{0, 2} {
				si := si
				txs = append(txs, func() (c10Tx, bool) {
					return build([]string{typ, "/goat.relayer.v1.MsgAcceptProposerRequest", t2}, signers[si], nil, "", "next-height", "valid")
				})
			}
		}
	}
	for _, t2 := range types[:min(len(types), 4)] {
		t2 := t2
		txs = append(txs, func() (c10Tx, bool) { return build([]string{typ, t2}, signers[0], &signers[1], "", "none", "valid") })
	}
	// fee payer / granter named in the envelope
	withFee := func(p, g *c10Signer, tys []string, sg c10Signer, tmo string) {
		txs = append(txs, func() (c10Tx, bool) {
			payer, granter = p, g
			defer func() { payer, granter = nil, nil }()
			return build(tys, sg, nil, "", tmo, "valid")
		})
	}
	withFee(&signers[1], nil, []string{typ}, signers[0], "none")
	withFee(&signers[0], nil, []string{typ}, signers[0], "none")
	withFee(nil, &signers[1], []string{typ}, signers[0], "none")
	if strings.HasSuffix(typ, "MsgNewEthBlock") {
		withFee(&signers[0], nil, []string{typ}, signers[2], "next-height")
		withFee(&signers[1], nil, []string{typ}, signers[0], "next-height")
		withFee(&signers[2], nil, []string{typ}, signers[2], "next-height")
		withFee(nil, &signers[0], []string{typ}, signers[2], "next-height")
		withFee(&signers[3], nil, []string{typ}, signers[2], "next-height")
	} else if c.Thorough() {
		withFee(&signers[2], nil, []string{typ}, signers[0], "next-height")
		withFee(&signers[3], nil, []string{typ}, signers[0], "none")
	}
	// memos that consist of white space only are memos
	for _, memo := range []string{" ", "\n", "\t \r\n", "\u00a0", "\u2003 "} {
		memo := memo
		txs = append(txs, func() (c10Tx, bool) { return build([]string{typ}, signers[0], nil, memo, "none", "valid") })
		if strings.HasSuffix(typ, "MsgNewEthBlock") {
			txs = append(txs, func() (c10Tx, bool) { return build([]string{typ}, signers[2], nil, memo, "next-height", "valid") })
		}
	}
	sample := 0
	for _, mk := range txs {
		t, ok := mk()
		if !ok {
			continue
		}
		c.Eval(1)
		// ---- CheckTx (new) ----
		res, err := ch.CheckTx(0, t.raw, false)
		admitted := err == nil && res.Code == 0
		c.Nontrivial("type=%v signer=%s memo=%v timeout=%s sig=%s check=%v", shortTypes(t.types), t.signer, t.memo != "", t.timeout, t.sig, admitted)
		if admitted {
			c.Count("admitted_by_check_tx", 1)
		} else {
			c.Count("refused_by_check_tx", 1)
		}
		switch {
		case admitted && t.expCheck == 0:
			viol("transaction admitted to the mempool that must be refused", t.desc, t)
		case !admitted && t.expCheck == 1:
			viol("relayer-proposer bridge transaction refused by the mempool", fmt.Sprintf("%s: %s", t.desc, res.GetLog()), t)
		}
		if sample < 3 && admitted {
			c.Sample(map[string]any{"admitted": t.desc})
			sample++
		}
		// ---- mempool -> PrepareProposal ----
		h := ch.Height + 1
		now := ch.Now.Add(3 * time.Second)
		ptxs, err := ch.Prepare(0, h, now, nil)
		if err != nil {
			c.Inconclusive("prepare: %v", err)
			return
		}
		included := false
		for _, p := range ptxs[1:] {
			if string(p) == string(t.raw) {
				included = true
			}
		}
		if included && t.expBlock == 0 {
			viol("transaction selected into a proposal that must be refused", t.desc, t)
		}
		if admitted && !included && t.expBlock == 1 {
			viol("admitted relayer-proposer transaction not selected into the proposal", t.desc, t)
		}
		if included {
			c.Count("selected_by_prepare_proposal", 1)
		}
		// ---- ProcessProposal: honest block message + this transaction ----
		lc := ch.LastCommitInfo(nil)
		prop := append([][]byte{ptxs[0]}, t.raw)
		okp, _ := ch.Process(0, 0, h, now, prop, lc, nil)
		if !t.hasBlockMsg { // a block message behind the first transaction is refused by the proposal handler whatever the door says
			switch {
			case okp && t.expBlock == 0:
				viol("proposal carrying a transaction that must be refused was accepted", t.desc, t)
			case !okp && t.expBlock == 1:
				viol("proposal carrying an admissible relayer-proposer transaction was rejected", t.desc, t)
			}
		}
		if okp {
			c.Count("accepted_by_process_proposal", 1)
		}
		// ---- FinalizeBlock: forced into a block; did the door (ante chain) let it in? ----
		_, seqBefore, existed := ch.Account(t.addr)
		pre := ch.Node().StoreHashes()
		blk, err := ch.FinalizeAndCommit(0, h, now, prop, lc, world.StepOpts{})
		if err != nil {
			viol("block processing failed on a hostile transaction", err.Error(), t)
			return
		}
		_, seqAfter, existsAfter := ch.Account(t.addr)
		passed := existsAfter && seqAfter == seqBefore+1
		// the twin executes the block without the transaction - unless it passed the door, in which case the
		// signer's sequence legitimately moved and the twin is kept in step by giving it the same block
		twTxs := prop[:1]
		if passed {
			twTxs = prop
		}
		if _, err := tw.Apply(blk, twTxs); err != nil {
			c.Inconclusive("twin: %v", err)
			return
		}
		if !existed && existsAfter {
			viol("an account was created by a transaction that must be refused", t.desc, t)
		}
		if passed {
			c.Count("passed_the_door_in_finalize", 1)
			// CometBFT rechecks what is left in the mempool after a commit: a transaction whose sequence
			// has been consumed by the block must be evicted
			if rres, rerr := ch.CheckTx(0, t.raw, true); rerr == nil && rres.Code == 0 {
				viol("recheck keeps a transaction whose account sequence was consumed", t.desc, t)
			}
			c.Count("rechecks", 1)
		}
		switch {
		case passed && t.expBlock == 0:
			viol("transaction passed the door inside a block although it must be refused", t.desc, t)
		case !passed && t.expBlock == 1:
			viol("admissible transaction refused inside a block", fmt.Sprintf("%s: %s", t.desc, blk.Resp.TxResults[1].Log), t)
		}
		// effects: whatever happened to this transaction, no store other than the signer's sequence may differ
		// from the twin that executed the block without it - unless it was an admissible bridge message that ran
		if !passed {
			if d := world.DiffStores(ch.Node(), tw.Node(), world.StoreNames...); len(d) > 0 {
				viol("a refused transaction changed state", fmt.Sprintf("%s: stores %v differ from the twin that executed the block without it", t.desc, d), t)
				return
			}
			c.Count("twin_store_comparisons", 1)
		} else if !allBridgeOrBlock(t.types) {
			viol("a message outside the bridge and relayer modules was executed", t.desc, t)
		}
		_ = pre
	}
	// ---- recheck the way CometBFT uses it: on admitted transactions, after a commit ----
	if inBridgeNamespaces(typ) {
		dropMempool := func(p [][]byte) [][]byte { return p[:1] }
		step := func() bool {
			b, err := ch.Step(world.StepOpts{Mutate: dropMempool})
			if err != nil {
				c.Inconclusive("recheck scenario: %v", err)
				return false
			}
			if _, err := tw.Apply(b, b.Req.Txs); err != nil {
				c.Inconclusive("recheck scenario twin: %v", err)
				return false
			}
			return true
		}
		keep, ok1 := build([]string{typ}, signers[0], nil, "", "none", "valid")
		if ok1 {
			if res, err := ch.CheckTx(0, keep.raw, false); err == nil && res.Code == 0 && step() {
				c.Eval(1)
				if rres, rerr := ch.CheckTx(0, keep.raw, true); rerr != nil || rres.Code != 0 {
					viol("recheck evicts an admissible transaction although nothing changed for it", keep.desc, keep)
				}
				c.Count("rechecks", 1)
				// a competing transaction with the same sequence is included: the held one must go
				other, ok2 := build([]string{typ}, signers[0], nil, "", "later", "valid")
				if ok2 {
					ch.Inject(other.raw)
					if step2, err := ch.Step(world.StepOpts{Mutate: func(p [][]byte) [][]byte { return append(p[:1], other.raw) }}); err == nil {
						_, _ = tw.Apply(step2, step2.Req.Txs)
						c.Eval(1)
						if rres, rerr := ch.CheckTx(0, keep.raw, true); rerr == nil && rres.Code == 0 {
							viol("recheck keeps a transaction whose account sequence was consumed", keep.desc, keep)
						}
						c.Count("rechecks", 1)
					}
				}
			}
		}
		exp, ok3 := build([]string{typ}, signers[0], nil, "", "next-height", "valid")
		if ok3 {
			if res, err := ch.CheckTx(0, exp.raw, false); err == nil && res.Code == 0 && step() && step() {
				c.Eval(1)
				if rres, rerr := ch.CheckTx(0, exp.raw, true); rerr == nil && rres.Code == 0 {
					viol("recheck keeps a transaction whose timeout height has passed", exp.desc, exp)
				}
				c.Count("rechecks", 1)
			}
		}
		// the relayer proposer changes (election) while its transaction waits in the mempool: "signed by the current
		// relayer proposer" is a statement about the state at admission time, so recheck must evict it, a new
		// submission must be refused and it must not be selected into a proposal
		rot, ok4 := build([]string{typ}, signers[0], nil, "", "none", "valid")
		if ok4 {
			if res, err := ch.CheckTx(0, rot.raw, false); err == nil && res.Code == 0 {
				b, err := ch.Step(world.StepOpts{Dt: 11 * time.Minute, Mutate: dropMempool})
				if err != nil {
					c.Inconclusive("rotation scenario: %v", err)
					return
				}
				if _, err := tw.Apply(b, b.Req.Txs); err != nil {
					c.Inconclusive("rotation scenario twin: %v", err)
					return
				}
				if g, err := ch.Group(); err == nil && g.Proposer.AddrStr != w.Members[0].AddrStr {
					c.Eval(1)
					c.Count("proposer_rotations", 1)
					if rres, rerr := ch.CheckTx(0, rot.raw, true); rerr == nil && rres.Code == 0 {
						viol("recheck keeps a transaction of a former relayer proposer", rot.desc, rot)
					}
					c.Count("rechecks", 1)
					if rres, rerr := ch.CheckTx(0, rot.raw, false); rerr == nil && rres.Code == 0 {
						viol("transaction of a former relayer proposer admitted to the mempool", rot.desc, rot)
					}
					if ptxs, err := ch.Prepare(0, ch.Height+1, ch.Now.Add(3*time.Second), nil); err == nil {
						for _, p := range ptxs[1:] {
							if string(p) == string(rot.raw) {
								viol("transaction of a former relayer proposer selected into a proposal", rot.desc, rot)
							}
						}
					}
					// and the new proposer is served
					ns := c10Signer{"relayer-proposer", g.Proposer.Tx, g.Proposer.Addr, true}
					if nt, ok := build([]string{typ}, ns, nil, "", "none", "valid"); ok {
						// build() derives its expectations from the signer name; the message must name the new proposer
						if rres, rerr := ch.CheckTx(0, nt.raw, false); rerr != nil || rres.Code != 0 {
							viol("relayer-proposer bridge transaction refused by the mempool", "after a rotation: "+nt.desc+": "+rres.GetLog(), nt)
						}
					}
				} else {
					c.Count("rotation_scenarios_without_change", 1)
				}
			}
		}
	}
	c.Sample(map[string]any{"type": typ, "transactions_judged": len(txs), "registered_types": types})
}

func allBridgeTypes(tys []string) bool {
	for _, t := range tys {
		if !inBridgeNamespaces(t) {
			return false
		}
	}
	return true
}

func shortTypes(tys []string) []string {
	var o []string
	for _, t := range tys {
		p := strings.Split(t, ".")
		o = append(o, p[len(p)-1])
	}
	return o
}

func init() {
	vc.Register(&vc.Check{
		ID: "C10", Title: "Only relayer-proposer bridge/relayer messages and the block message can run", Level: "exploration",
		Rule: "enumeration over the message types the application's interface registry lists at run time (one case per type; cases beyond the number of types repeat with other keys): for the type alone x signer {relayer proposer, another voter, a validator, unknown account} x memo {none, 1 byte; and five white-space-only memos on the plain envelope} x timeout {none, last height, next height, later} x signature {valid, wrong key, wrong sequence, wrong chain id} (quick: signature variants only on the plain envelope), every ordered pair (type, other type) in one single-signer transaction, two-signer transactions, and fee fields (a fee payer other than the signer = a second required signer, the signer as its own payer, a fee granter; five variants on the block message); " +
			"each transaction goes through CheckTx(new), mempool selection by PrepareProposal, CheckTx(recheck), ProcessProposal behind an honest block message, and FinalizeBlock (forced); admitted = code 0 / selected / ACCEPT / account sequence advanced; oracle from the statement; after the forced block all store hashes (acc too, unless the door was passed) must equal a twin that executed the block without the transaction. Exhaustive over the listed axes for the registered types (thorough tier). Non-trivial = every transaction; distinct = (types, signer, memo, timeout, signature, verdict).",
		Assume: []string{"messages are built generically: the signer field is set, all other fields are zero", "a timeout equal to the last committed height is not judged in check mode"},
		Cases:  func(tier string) int { return map[string]int{"quick": 16, "thorough": 32}[tier] },
		Run:    func(c *vc.Ctx, i int) { c10Case(c, i) },
	})
}

var _ = abci.CheckTxType_New
var _ = proto.Marshal

func allBridgeOrBlock(tys []string) bool {
	for _, t := range tys {
		if !inBridgeNamespaces(t) && !strings.HasSuffix(t, "MsgNewEthBlock") {
			return false
		}
	}
	return true
}
