package checks

import (
	"fmt"
	"math/big"

	"github.com/ethereum/go-ethereum/common"
	"github.com/ethereum/go-ethereum/core/types/goattypes"
	lockingtypes "github.com/goatnetwork/goat/x/locking/types"

	"verif/harness/vc"
	"verif/harness/world"
)

// c11Mon: per token, locked in = held + slashed + queued for release + released.
type c11Mon struct {
	h        *lockHist
	lockedIn map[string]*big.Int
	released map[string]*big.Int
}

func addTo(m map[string]*big.Int, k string, v *big.Int) {
	if m[k] == nil {
		m[k] = new(big.Int)
	}
	m[k].Add(m[k], v)
}

func newC11Mon(h *lockHist) *c11Mon {
	m := &c11Mon{h: h, lockedIn: map[string]*big.Int{}, released: map[string]*big.Int{}}
	for _, v := range h.post.Locking.Validators {
		for _, c := range v.Locking {
			addTo(m.lockedIn, c.Denom, c.Amount.BigInt())
		}
	}
	for _, c := range h.post.Locking.Slashed {
		addTo(m.lockedIn, c.Denom, c.Amount.BigInt())
	}
	// a chain that starts from an exported state may already have releases under way
	for _, q := range h.post.Locking.UnlockQueue {
		for _, u := range q.Unlocks {
			addTo(m.lockedIn, unlockDenom(u), bi(u.Amount))
		}
	}
	for _, u := range h.post.Locking.EthTxQueue.Unlocks {
		addTo(m.lockedIn, unlockDenom(u), bi(u.Amount))
	}
	return m
}

func unlockDenom(u *lockingtypes.Unlock) string { return denomOf(common.BytesToAddress(u.Token)) }

func (m *c11Mon) afterBlock() {
	h := m.h
	c, pre, post, blk, ops := h.c, h.pre, h.post, h.blk, h.ops
	c.Eval(1)
	viol := func(sig, detail string) {
		c.Violation(sig, fmt.Sprintf("height %d: %s", blk.Height, detail), h.replay())
	}
	if blk.BlockOK {
		for _, l := range ops.locks {
			addTo(m.lockedIn, denomOf(l.Token), l.Amount)
			c.Count("locks_applied", 1)
		}
		if blk.Payload != nil {
			n := int(blk.Payload.ExtraData[0])
			for i := 0; i < n && i < len(blk.Payload.Transactions); i++ {
				st, err := world.DecodeSysTx(blk.Payload.Transactions[i])
				if err != nil {
					continue
				}
				if u, ok := st.Tx.(*goattypes.CompleteUnlockTx); ok {
					addTo(m.released, denomOf(u.Token), u.Amount)
					if u.Amount.Sign() < 0 {
						viol("negative released amount", fmt.Sprintf("unlock %d amount %s", u.Id, u.Amount))
					}
				}
			}
		}
	}
	// state side of the balance
	held, queued := map[string]*big.Int{}, map[string]*big.Int{}
	for _, v := range post.Locking.Validators {
		for _, cn := range v.Locking {
			addTo(held, cn.Denom, cn.Amount.BigInt())
			if cn.Amount.IsNegative() {
				viol("negative holding", fmt.Sprintf("validator %x holds %s", v.Pubkey[:4], cn))
			}
		}
	}
	for _, cn := range post.Locking.Slashed {
		addTo(held, cn.Denom, cn.Amount.BigInt())
		if cn.Amount.IsNegative() {
			viol("negative slashed total", cn.String())
		}
	}
	for _, q := range post.Locking.UnlockQueue {
		for _, u := range q.Unlocks {
			addTo(queued, unlockDenom(u), bi(u.Amount))
			if bi(u.Amount).Sign() < 0 {
				viol("negative queued unlock", fmt.Sprintf("unlock %d amount %s", u.Id, u.Amount))
			}
		}
	}
	for _, u := range post.Locking.EthTxQueue.Unlocks {
		addTo(queued, unlockDenom(u), bi(u.Amount))
	}
	denoms := map[string]bool{}
	for _, mm := range []map[string]*big.Int{m.lockedIn, held, queued, m.released} {
		for d := range mm {
			denoms[d] = true
		}
	}
	for d := range denoms {
		lhs := new(big.Int)
		if m.lockedIn[d] != nil {
			lhs.Set(m.lockedIn[d])
		}
		rhs := new(big.Int)
		for _, mm := range []map[string]*big.Int{held, queued, m.released} {
			if mm[d] != nil {
				rhs.Add(rhs, mm[d])
			}
		}
		if lhs.Cmp(rhs) != 0 {
			viol("locked funds not conserved", fmt.Sprintf("token %s: locked in %s, but held+slashed %s + queued %s + released %s = %s (difference %s)", d, lhs, z(held[d]), z(queued[d]), z(m.released[d]), rhs, new(big.Int).Sub(rhs, lhs)))
		}
		c.Count("token_balances_checked", 1)
	}
	// each single unlock: released amount <= requested and <= holding before it
	if blk.BlockOK && len(ops.unlocks) > 0 {
		queuedByID := map[uint64]*big.Int{}
		for _, q := range post.Locking.UnlockQueue {
			for _, u := range q.Unlocks {
				queuedByID[u.Id] = bi(u.Amount)
			}
		}
		for _, u := range post.Locking.EthTxQueue.Unlocks {
			queuedByID[u.Id] = bi(u.Amount)
		}
		running := map[string]*big.Int{}
		for _, u := range ops.unlocks {
			key := fmt.Sprintf("%d/%s", u.Val, denomOf(u.Token))
			if running[key] == nil {
				running[key] = h.holding(pre, u.Val, u.Token)
				for _, l := range ops.locks {
					if l.Validator == h.vals[u.Val].Addr && l.Token == u.Token {
						running[key].Add(running[key], l.Amount)
					}
				}
			}
			got, ok := queuedByID[u.ID]
			if !ok {
				viol("accepted unlock request was not queued", fmt.Sprintf("unlock id %d", u.ID))
				continue
			}
			u.Queued = got
			u.HoldBefore = new(big.Int).Set(running[key])
			if got.Cmp(u.Requested) > 0 {
				viol("unlock releases more than requested", fmt.Sprintf("unlock %d requested %s queued %s", u.ID, u.Requested, got))
			}
			if got.Cmp(running[key]) > 0 {
				viol("unlock releases more than the validator holds", fmt.Sprintf("unlock %d: holding %s queued %s", u.ID, running[key], got))
			}
			if got.Cmp(u.Requested) < 0 {
				c.Count("unlocks_clipped_to_holding", 1)
			}
			running[key].Sub(running[key], got)
			c.Count("unlocks_judged", 1)
		}
	}
	slashes := 0
	for _, cn := range post.Locking.Slashed {
		if cn.Amount.GT(pre.Locking.Slashed.AmountOf(cn.Denom)) {
			slashes++
		}
	}
	if slashes > 0 {
		c.Count("blocks_with_slashing", 1)
	}
	c.Nontrivial("tokens=%d slashed_tokens=%d queued_unlock_keys=%d delivery_queue=%d", len(denoms), len(post.Locking.Slashed), len(post.Locking.UnlockQueue), len(post.Locking.EthTxQueue.Unlocks))
}

func z(b *big.Int) *big.Int {
	if b == nil {
		return new(big.Int)
	}
	return b
}

func c11History(c *vc.Ctx, idx int) {
	r := world.NewRand(c.Seed, "c11cfg", idx)
	nv := 2 + r.Intn(5)
	var powers []uint64
	for i := 0; i < nv; i++ {
		powers = append(powers, uint64(5+r.Intn(40)))
	}
	cfg := lockCfg{Label: "c11", NVals: nv, Powers: powers, MaxVals: int64(2 + r.Intn(5)), Blocks: c.Pick(60, 150), Protect0: true, JumpTime: idx%2 == 0, TimeEdges: idx%2 == 1, HugeWeights: idx%4 == 2,
		W: lockWeights{Create: 10, Lock: 55, Unlock: 50, Claim: 5, Grant: 3, Weight: 10, Threshold: 10, Absent: 25, Evidence: 10, DustLock: 20, BigUnlock: 25},
		Params: func(p *lockingtypes.Params) {
			if idx%3 == 0 { // fractions under which small holdings truncate to zero
				p.SlashFractionDowntime = p.SlashFractionDowntime.QuoInt64(1000)
			}
		}}
	h, err := newLockHist(c, cfg, idx)
	if err != nil {
		c.Inconclusive("setup: %v", err)
		return
	}
	defer h.close()
	mon := newC11Mon(h)
	h.crashFn = func(cr *world.ErrCrash) {
		c.Inconclusive("FinalizeBlock failed (reported under C13): %v", cr)
	}
	for b := 0; b < cfg.Blocks && !h.failed; b++ {
		if !h.step() {
			return
		}
		mon.afterBlock()
	}
	c.Sample(map[string]any{"validators": nv, "blocks": h.ch.Height, "locked_in": fmt.Sprint(mon.lockedIn), "released": fmt.Sprint(mon.released), "slashed": h.post.Locking.Slashed.String(), "last_ops": lastN(h.opsLog, 4)})
}

func init() {
	vc.Register(&vc.Check{
		ID: "C11", Title: "Locked funds are conserved: locked = held + slashed + released", Level: "exploration",
		Rule: "one case = one history (60/150 blocks) over 2..6 genesis validators plus created ones and 3 tokens (weights 1,2,0; one threshold), with locks (dust, threshold +-1, 1e18/weight +-1, up to 2^96), " +
			"unlocks (1 wei, whole holding, holding+1, down to / just below the threshold, >16 per block), weight and threshold changes, absence streaks that trigger downtime slashing, duplicate-vote and light-client evidence; " +
			"after every commit, per token: genesis holdings + locks of successful block messages = holdings + slashed + unlock queue + delivery queue + amounts of complete-unlock system txs delivered; all amounts >= 0; each unlock queues <= requested and <= holding before it. " +
			"Non-trivial = every committed block; distinct = (tokens seen, slashed tokens, unlock-queue keys, delivery-queue length).",
		Assume: []string{"amounts <= 2^96 (documented input bound)", "delivered = system transactions of payloads whose block message succeeded"},
		Cases:  func(tier string) int { return map[string]int{"quick": 48 + 8, "thorough": 320 + 60}[tier] },
		Run: func(c *vc.Ctx, i int) {
			if base := map[string]int{"quick": 48, "thorough": 320}[c.Tier]; i >= base {
				// the same monitor under the combined traffic of all modules
				combinedHistory(c, i-base, "c11x", c.Pick(60, 150), nil, func(h *lockHist) (func(), func()) {
					mon := newC11Mon(h)
					h.crashFn = func(cr *world.ErrCrash) { c.Inconclusive("FinalizeBlock failed (reported under C13): %v", cr) }
					return mon.afterBlock, nil
				})
				return
			}
			c11History(c, i)
		},
	})
}
