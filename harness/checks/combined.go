package checks

import (
	"crypto/sha256"
	"fmt"
	"time"

	"github.com/ethereum/go-ethereum/common"
	"github.com/ethereum/go-ethereum/core/types/goattypes"
	lockingtypes "github.com/goatnetwork/goat/x/locking/types"
	relayertypes "github.com/goatnetwork/goat/x/relayer/types"

	"verif/harness/vc"
	"verif/harness/world"
)

// combinedHistory runs the traffic of all modules at once - the locking workload, the bridge workload of C03/C05 (deposits and
// withdrawals in every stage with their perturbations), relayer membership requests with voter registrations, elections -
// and lets the caller's monitor judge every block. The bridge workload's own oracles are silent here (they belong to
// C03/C05/C06). Several seeded changes were missed at first only because a monitor's histories lacked the traffic of a
// neighbouring module; these histories give every invariant monitor that traffic.
func combinedHistory(c *vc.Ctx, idx int, label string, blocks int, tune func(*lockCfg), attach func(h *lockHist) (afterBlock, finish func())) {
	cfg := lockCfg{Label: label, NVals: 2 + idx%3, MaxVals: int64(2 + idx%4), Blocks: blocks, Protect0: true, NRelayers: 1 + idx%3, JumpTime: idx%3 == 0, TimeEdges: idx%3 == 1,
		W: lockWeights{Create: 12, Lock: 40, Unlock: 40, Claim: 25, Grant: 8, Weight: 10, Threshold: 8, Absent: 25, Evidence: 6, DustLock: 10, BigUnlock: 15},
		Params: func(p *lockingtypes.Params) {
			p.UnlockDuration = 15 * time.Second
			p.ExitingDuration = 30 * time.Second
		},
		Relayer: func(g *relayertypes.GenesisState) { g.Params.ElectingPeriod = 40 * time.Second }}
	candMember := func(n int) *world.Member { return world.NewMember(c.Seed, fmt.Sprintf("%s-cand-%d", label, idx), n) }
	for n := 1; n < 40; n += 3 {
		cfg.ExtraAccounts = append(cfg.ExtraAccounts, candMember(n).Addr)
	}
	if tune != nil {
		tune(&cfg)
	}
	lh, err := newLockHistSchnorr(c, cfg, idx, idx%2 == 1)
	if err != nil {
		c.Inconclusive("setup: %v", err)
		return
	}
	defer lh.close()
	after, finish := attach(lh)
	b := newBridgeHist(lh)
	b.quiet = true
	wm := newWdMon(b)
	r := lh.r
	w0 := lh.cfg.W
	lh.cfg.W = lockWeights{}
	if !lh.step() {
		return
	}
	lh.cfg.W = w0
	after()
	muts := c03Mutators()
	var addrPool []addrCase
	for _, ac := range c17AddrCases(c.Seed, 23000+idx, 1, regtest) {
		if ac.Str != "" && ac.Expect != 2 {
			addrPool = append(addrPool, ac)
		}
	}
	expectOf := map[string]addrCase{}
	for _, ac := range addrPool {
		expectOf[ac.Str] = ac
	}
	wm.classify = func(a string) []byte {
		if ac, ok := expectOf[a]; ok {
			if ac.Expect == 1 {
				return ac.Script
			}
			return nil
		}
		sc, _, err := scriptOfAddress(a)
		if err != nil {
			return nil
		}
		return sc
	}
	var cands []*candidate
	b.extraMembers = func() []*world.Member {
		var cm []*world.Member
		for _, cd := range cands {
			cm = append(cm, cd.m)
		}
		return cm
	}
	// directed: a batch of 9..12 withdrawals paid at once, finalised together with a few refunds (more notices due than one
	// execution block may carry)
	burst := &wdBurst{at: 12 + idx%9, n: 9 + idx%4, refunds: 2 + idx%3}
	for blk := 0; blk < cfg.Blocks && !lh.failed; blk++ {
		if !b.refreshGroup() {
			return
		}
		burst.step(b, wm, blk, c.Seed, idx)
		c03Gen(b, blk, muts)
		c05Gen(wm, blk, cfg.Blocks, idx, addrPool)
		var rq goattypes.RelayerRequests
		if r.Intn(6) == 0 {
			m := candMember(len(cands))
			kh := sha256.Sum256(m.BLSPub)
			cands = append(cands, &candidate{m: m, regHeight: uint64(lh.ch.Height + 1), hashOK: true, state: "pending"})
			rq.Adds = append(rq.Adds, &goattypes.AddVoterRequest{Voter: common.BytesToAddress(m.Addr), Pubkey: common.BytesToHash(kh[:])})
			lh.logf("EL: add voter candidate %d", len(cands)-1)
		}
		if r.Intn(12) == 0 && len(b.group.Voters) > 0 && b.group.Voters[0] != nil {
			rq.Removes = append(rq.Removes, &goattypes.RemoveVoterRequest{Voter: common.BytesToAddress(b.group.Voters[r.Intn(len(b.group.Voters))].Addr)})
			lh.logf("EL: remove a voter")
		}
		for ci, cd := range cands {
			if cd.state == "pending" && uint64(lh.ch.Height) >= cd.regHeight && r.Intn(3) == 0 {
				kh := sha256.Sum256(cd.m.BLSPub)
				txp, blsp := voterProofs(cd.m, lh.ch.W.Cfg.ChainID, b.group.Proposer.AddrStr, b.group.Epoch, cd.regHeight, kh[:])
				cd := cd
				b.ops = append(b.ops, &relOp{msg: &relayertypes.MsgNewVoterRequest{Proposer: b.group.Proposer.AddrStr, VoterBlsKey: cd.m.BLSPub, VoterTxKey: cd.m.Tx.PubKey().Bytes(), VoterTxKeyProof: txp, VoterBlsKeyProof: blsp},
					desc: fmt.Sprintf("new-voter candidate %d", ci), judge: func(code uint32, log string) {
						if code == 0 {
							cd.state = "boarding"
						}
					}})
			}
		}
		b.extraLocking = func(o *blockOps) { o.Reqs.Relayer = rq }
		if !b.runBlock() {
			return
		}
		if lh.vsetEnded {
			break
		}
		after()
		c.Count("combined_history_blocks", 1)
	}
	lh.closing(after)
	if finish != nil && !lh.failed && !lh.vsetEnded {
		finish()
	}
	c.Sample(map[string]any{"combined_history": label, "blocks": lh.ch.Height, "members": 1 + len(b.group.Voters), "last_ops": lastN(lh.opsLog, 3)})
}
