package checks

import (
	"bytes"
	"fmt"
	"os"
	"time"

	"cosmossdk.io/math"
	abci "github.com/cometbft/cometbft/abci/types"
	sdk "github.com/cosmos/cosmos-sdk/types"
	authtypes "github.com/cosmos/cosmos-sdk/x/auth/types"
	"github.com/ethereum/go-ethereum/core/types/goattypes"
	bitcointypes "github.com/goatnetwork/goat/x/bitcoin/types"
	goatxtypes "github.com/goatnetwork/goat/x/goat/types"
	lockingtypes "github.com/goatnetwork/goat/x/locking/types"
	relayertypes "github.com/goatnetwork/goat/x/relayer/types"

	"verif/harness/vc"
	"verif/harness/world"
)

// C08: (a) honest proposals are accepted by every node and their block message succeeds,
// (b) every listed malformation of a proposal is rejected by every node, (c) no data races
// (the same workload on the race-detector build; reports are collected by the runner).

type c08Mutant struct {
	name string
	// build returns the mutated transaction list, or nil when not applicable at this height
	build func(e *c08Env) [][]byte
	// fault, when set, is injected into every node's engine for the process phase instead of a mutation
	fault string
}

type c08Env struct {
	h       *lockHist
	prop    int
	height  int64
	txs     [][]byte
	payload *goatxtypes.ExecutionPayload
}

func clonePayload(p *goatxtypes.ExecutionPayload) *goatxtypes.ExecutionPayload {
	bz, _ := p.Marshal()
	var q goatxtypes.ExecutionPayload
	_ = q.Unmarshal(bz)
	return &q
}

func (e *c08Env) resign(p *goatxtypes.ExecutionPayload, signer int, proposerField string, extra ...sdk.Msg) [][]byte {
	tx, err := e.h.ch.BlockTx(signer, e.height, proposerField, p, extra...)
	if err != nil {
		return nil
	}
	out := [][]byte{tx}
	return append(out, e.txs[1:]...)
}

func (e *c08Env) withPayload(f func(p *goatxtypes.ExecutionPayload) bool) [][]byte {
	p := clonePayload(e.payload)
	if !f(p) {
		return nil
	}
	world.Rehash(p)
	return e.resign(p, e.prop, e.h.ch.W.ValAddrStr(e.prop))
}

// withField changes one field of the honest payload and keeps the block hash: the execution client, which rebuilds the
// header from the fields it is given, must find the hash wrong - provided every field reaches it unchanged.
func (e *c08Env) withField(f func(p *goatxtypes.ExecutionPayload)) [][]byte {
	p := clonePayload(e.payload)
	f(p)
	return e.resign(p, e.prop, e.h.ch.W.ValAddrStr(e.prop))
}

func nsys(p *goatxtypes.ExecutionPayload) int {
	if len(p.ExtraData) == 0 {
		return 0
	}
	return int(p.ExtraData[0])
}

func c08Mutants() []c08Mutant {
	other := func(e *c08Env) int { return (e.prop + 1) % len(e.h.ch.Nodes) }
	return []c08Mutant{
		{name: "control: same payload re-signed by the proposer", build: func(e *c08Env) [][]byte {
			return e.withPayload(func(p *goatxtypes.ExecutionPayload) bool { return true })
		}},
		{name: "block message missing", build: func(e *c08Env) [][]byte {
			if len(e.txs) < 2 {
				return [][]byte{}
			}
			return e.txs[1:]
		}},
		{name: "block message not first", build: func(e *c08Env) [][]byte {
			if len(e.txs) < 2 {
				return nil
			}
			out := append([][]byte{e.txs[1], e.txs[0]}, e.txs[2:]...)
			return out
		}},
		{name: "block message duplicated", build: func(e *c08Env) [][]byte {
			// the second copy needs the next account sequence to pass the ante chain
			p := clonePayload(e.payload)
			num, seq, _ := e.h.ch.Account(sdk.AccAddress(e.h.ch.W.Vals[e.prop].Cons))
			tx2, err := e.h.ch.W.SignTx(world.TxSpec{Msgs: []sdk.Msg{&goatxtypes.MsgNewEthBlock{Proposer: e.h.ch.W.ValAddrStr(e.prop), Payload: p}}, Priv: e.h.ch.W.ValPriv(e.prop), AccNum: num, Seq: seq + 1, Timeout: uint64(e.height), Gas: 100_000_000})
			if err != nil {
				return nil
			}
			return append([][]byte{e.txs[0], tx2}, e.txs[1:]...)
		}},
		{name: "later transaction bundling two block messages", build: func(e *c08Env) [][]byte {
			num, seq, _ := e.h.ch.Account(sdk.AccAddress(e.h.ch.W.Vals[e.prop].Cons))
			mk := func() sdk.Msg {
				return &goatxtypes.MsgNewEthBlock{Proposer: e.h.ch.W.ValAddrStr(e.prop), Payload: clonePayload(e.payload)}
			}
			tx2, err := e.h.ch.W.SignTx(world.TxSpec{Msgs: []sdk.Msg{mk(), mk()}, Priv: e.h.ch.W.ValPriv(e.prop), AccNum: num, Seq: seq + 1, Timeout: uint64(e.height), Gas: 100_000_000})
			if err != nil {
				return nil
			}
			return append(append([][]byte{}, e.txs...), tx2)
		}},
		{name: "second message in the block transaction", build: func(e *c08Env) [][]byte {
			p := clonePayload(e.payload)
			return e.resign(p, e.prop, e.h.ch.W.ValAddrStr(e.prop), &goatxtypes.MsgNewEthBlock{Proposer: e.h.ch.W.ValAddrStr(e.prop), Payload: clonePayload(e.payload)})
		}},
		{name: "foreign message type after the block message", build: func(e *c08Env) [][]byte {
			num, seq, _ := e.h.ch.Account(sdk.AccAddress(e.h.ch.W.Vals[e.prop].Cons))
			m := &authtypes.MsgUpdateParams{Authority: e.h.ch.W.ValAddrStr(e.prop), Params: authtypes.DefaultParams()}
			tx, err := e.h.ch.W.SignTx(world.TxSpec{Msgs: []sdk.Msg{m}, Priv: e.h.ch.W.ValPriv(e.prop), AccNum: num, Seq: seq + 1})
			if err != nil {
				return nil
			}
			return append(append([][]byte{}, e.txs...), tx)
		}},
		{name: "parent hash with a byte in front (converts to the recorded head's hash)", build: func(e *c08Env) [][]byte {
			return e.withPayload(func(p *goatxtypes.ExecutionPayload) bool {
				p.ParentHash = append([]byte{0xaa}, p.ParentHash...)
				return true
			})
		}},
		{name: "beacon root with a byte in front (converts to the recorded root)", build: func(e *c08Env) [][]byte {
			return e.withPayload(func(p *goatxtypes.ExecutionPayload) bool {
				p.BeaconRoot = append([]byte{0x01}, p.BeaconRoot...)
				return true
			})
		}},
		{name: "fee recipient with twelve bytes in front (converts to the proposer's address)", build: func(e *c08Env) [][]byte {
			return e.withPayload(func(p *goatxtypes.ExecutionPayload) bool {
				p.FeeRecipient = append(append([]byte{}, make([]byte, 11)...), append([]byte{0x07}, p.FeeRecipient...)...)
				return true
			})
		}},
		{name: "wrong parent hash", build: func(e *c08Env) [][]byte {
			return e.withPayload(func(p *goatxtypes.ExecutionPayload) bool {
				// the grandparent (or the EL genesis): a block the engine knows, but not the recorded head
				bs := e.h.ch.Blocks
				var gp []byte
				for i := len(bs) - 1; i >= 0; i-- {
					if bs[i].BlockOK && bs[i].Payload != nil && string(bs[i].Payload.BlockHash) == string(p.ParentHash) {
						gp = bs[i].Payload.ParentHash
						break
					}
				}
				if gp == nil {
					return false
				}
				p.ParentHash = gp
				return true
			})
		}},
		{name: "wrong block number", build: func(e *c08Env) [][]byte {
			return e.withPayload(func(p *goatxtypes.ExecutionPayload) bool { p.BlockNumber++; return true })
		}},
		{name: "wrong beacon root", build: func(e *c08Env) [][]byte {
			return e.withPayload(func(p *goatxtypes.ExecutionPayload) bool {
				b := append([]byte(nil), p.BeaconRoot...)
				b[0] ^= 1
				p.BeaconRoot = b
				return true
			})
		}},
		{name: "authored by another validator", build: func(e *c08Env) [][]byte {
			if len(e.h.ch.Nodes) < 2 {
				return nil
			}
			o := other(e)
			p := clonePayload(e.payload)
			return e.resign(p, o, e.h.ch.W.ValAddrStr(o))
		}},
		{name: "another validator as author and fee recipient", build: func(e *c08Env) [][]byte {
			if len(e.h.ch.Nodes) < 2 {
				return nil
			}
			o := other(e)
			p := clonePayload(e.payload)
			p.FeeRecipient = e.h.ch.W.Vals[o].Cons
			world.Rehash(p)
			return e.resign(p, o, e.h.ch.W.ValAddrStr(o))
		}},
		{name: "wrong fee recipient", build: func(e *c08Env) [][]byte {
			return e.withPayload(func(p *goatxtypes.ExecutionPayload) bool {
				b := append([]byte(nil), p.FeeRecipient...)
				b[19] ^= 1
				p.FeeRecipient = b
				return true
			})
		}},
		{name: "system transaction dropped", build: func(e *c08Env) [][]byte {
			return e.withPayload(func(p *goatxtypes.ExecutionPayload) bool {
				n := nsys(p)
				if n == 0 {
					return false
				}
				p.Transactions = append([][]byte{}, p.Transactions[1:]...)
				p.ExtraData = append([]byte{byte(n - 1)}, p.ExtraData[1:]...)
				return true
			})
		}},
		{name: "system transaction duplicated", build: func(e *c08Env) [][]byte {
			return e.withPayload(func(p *goatxtypes.ExecutionPayload) bool {
				n := nsys(p)
				if n == 0 {
					return false
				}
				p.Transactions = append([][]byte{p.Transactions[0]}, p.Transactions...)
				p.ExtraData = append([]byte{byte(n + 1)}, p.ExtraData[1:]...)
				return true
			})
		}},
		{name: "system transactions reordered", build: func(e *c08Env) [][]byte {
			return e.withPayload(func(p *goatxtypes.ExecutionPayload) bool {
				if nsys(p) < 2 || string(p.Transactions[0]) == string(p.Transactions[1]) {
					return false
				}
				t := append([][]byte{}, p.Transactions...)
				t[0], t[1] = t[1], t[0]
				p.Transactions = t
				return true
			})
		}},
		{name: "system transaction altered by one byte", build: func(e *c08Env) [][]byte {
			return e.withPayload(func(p *goatxtypes.ExecutionPayload) bool {
				if nsys(p) == 0 {
					return false
				}
				t := append([][]byte{}, p.Transactions...)
				b := append([]byte(nil), t[0]...)
				b[len(b)-1] ^= 1
				t[0] = b
				p.Transactions = t
				return true
			})
		}},
		{name: "extra system transaction", build: func(e *c08Env) [][]byte {
			return e.withPayload(func(p *goatxtypes.ExecutionPayload) bool {
				n := nsys(p)
				extra := bitcointypes.NewBitcoinHashEthTx(9999, make([]byte, 32))
				raw, err := extra.MarshalBinary()
				if err != nil {
					return false
				}
				t := append([][]byte{}, p.Transactions[:n]...)
				t = append(t, raw)
				t = append(t, p.Transactions[n:]...)
				p.Transactions = t
				p.ExtraData = append([]byte{byte(n + 1)}, p.ExtraData[1:]...)
				return true
			})
		}},
		{name: "system transaction count byte changed", build: func(e *c08Env) [][]byte {
			return e.withPayload(func(p *goatxtypes.ExecutionPayload) bool {
				p.ExtraData = append([]byte{byte(nsys(p) + 1)}, p.ExtraData[1:]...)
				return true
			})
		}},
		{name: "no gas-revenue request", build: func(e *c08Env) [][]byte {
			return e.withPayload(func(p *goatxtypes.ExecutionPayload) bool {
				var out [][]byte
				for _, r := range p.Requests {
					if len(r) > 0 && r[0] == goattypes.GasRequestType {
						continue
					}
					out = append(out, r)
				}
				p.Requests = out
				return true
			})
		}},
		{name: "two gas-revenue requests", build: func(e *c08Env) [][]byte {
			return e.withPayload(func(p *goatxtypes.ExecutionPayload) bool {
				var out [][]byte
				for _, r := range p.Requests {
					if len(r) > 0 && r[0] == goattypes.GasRequestType {
						r = append(append([]byte{}, r...), r[1:]...)
					}
					out = append(out, r)
				}
				p.Requests = out
				return true
			})
		}},
		{name: "request of an unknown type", build: func(e *c08Env) [][]byte {
			return e.withPayload(func(p *goatxtypes.ExecutionPayload) bool {
				p.Requests = append(append([][]byte{}, p.Requests...), []byte{0x63, 1, 2, 3})
				return true
			})
		}},
		{name: "empty request in the list", build: func(e *c08Env) [][]byte {
			return e.withPayload(func(p *goatxtypes.ExecutionPayload) bool {
				p.Requests = append(append([][]byte{}, p.Requests...), []byte{})
				return true
			})
		}},
		{name: "timestamp one hour ahead", build: func(e *c08Env) [][]byte {
			return e.withPayload(func(p *goatxtypes.ExecutionPayload) bool { p.Timestamp += 3600; return true })
		}},
		{name: "timestamp two minutes ahead", build: func(e *c08Env) [][]byte {
			return e.withPayload(func(p *goatxtypes.ExecutionPayload) bool { p.Timestamp += 120; return true })
		}},
		{name: "timestamp 2^31", build: func(e *c08Env) [][]byte {
			return e.withPayload(func(p *goatxtypes.ExecutionPayload) bool { p.Timestamp = 1 << 31; return true })
		}},
		{name: "timestamp 2^32", build: func(e *c08Env) [][]byte {
			return e.withPayload(func(p *goatxtypes.ExecutionPayload) bool { p.Timestamp = 1 << 32; return true })
		}},
		{name: "timestamp 2^63-1", build: func(e *c08Env) [][]byte {
			return e.withPayload(func(p *goatxtypes.ExecutionPayload) bool { p.Timestamp = 1<<63 - 1; return true })
		}},
		{name: "timestamp 2^63", build: func(e *c08Env) [][]byte {
			return e.withPayload(func(p *goatxtypes.ExecutionPayload) bool { p.Timestamp = 1 << 63; return true })
		}},
		{name: "timestamp 2^64-1", build: func(e *c08Env) [][]byte {
			return e.withPayload(func(p *goatxtypes.ExecutionPayload) bool { p.Timestamp = ^uint64(0); return true })
		}},
		{name: "excess blob gas changed under the same block hash", build: func(e *c08Env) [][]byte {
			return e.withField(func(p *goatxtypes.ExecutionPayload) { p.ExcessBlobGas += 131072 })
		}},
		{name: "excess blob gas set to the blob gas used under the same block hash", build: func(e *c08Env) [][]byte {
			if e.payload.ExcessBlobGas == e.payload.BlobGasUsed {
				return nil
			}
			return e.withField(func(p *goatxtypes.ExecutionPayload) { p.ExcessBlobGas = p.BlobGasUsed })
		}},
		{name: "blob gas used changed under the same block hash", build: func(e *c08Env) [][]byte {
			return e.withField(func(p *goatxtypes.ExecutionPayload) { p.BlobGasUsed += 131072 })
		}},
		{name: "gas limit changed under the same block hash", build: func(e *c08Env) [][]byte {
			return e.withField(func(p *goatxtypes.ExecutionPayload) { p.GasLimit++ })
		}},
		{name: "gas used changed under the same block hash", build: func(e *c08Env) [][]byte {
			return e.withField(func(p *goatxtypes.ExecutionPayload) { p.GasUsed += 21000 })
		}},
		{name: "state root changed under the same block hash", build: func(e *c08Env) [][]byte {
			return e.withField(func(p *goatxtypes.ExecutionPayload) {
				p.StateRoot = append([]byte{}, p.StateRoot...)
				p.StateRoot[7] ^= 1
			})
		}},
		{name: "receipts root changed under the same block hash", build: func(e *c08Env) [][]byte {
			return e.withField(func(p *goatxtypes.ExecutionPayload) {
				p.ReceiptsRoot = append([]byte{}, p.ReceiptsRoot...)
				p.ReceiptsRoot[3] ^= 1
			})
		}},
		{name: "request entry without data appended under the same block hash", build: func(e *c08Env) [][]byte {
			return e.withField(func(p *goatxtypes.ExecutionPayload) {
				ty := byte(0x0b)
				if len(p.Requests) > 0 && len(p.Requests[len(p.Requests)-1]) > 0 {
					ty = p.Requests[len(p.Requests)-1][0]
				}
				p.Requests = append(append([][]byte{}, p.Requests...), []byte{ty})
			})
		}},
		{name: "last request entry dropped under the same block hash", build: func(e *c08Env) [][]byte {
			if len(e.payload.Requests) < 2 {
				return nil
			}
			return e.withField(func(p *goatxtypes.ExecutionPayload) {
				p.Requests = append([][]byte{}, p.Requests[:len(p.Requests)-1]...)
			})
		}},
		{name: "base fee changed under the same block hash", build: func(e *c08Env) [][]byte {
			return e.withField(func(p *goatxtypes.ExecutionPayload) { p.BaseFeePerGas = p.BaseFeePerGas.AddRaw(1) })
		}},
		{name: "nil payload", build: func(e *c08Env) [][]byte {
			return e.resign(nil, e.prop, e.h.ch.W.ValAddrStr(e.prop))
		}},
		{name: "engine answers INVALID", fault: "INVALID"},
		{name: "engine answers SYNCING", fault: "SYNCING"},
		{name: "engine answers ACCEPTED", fault: "ACCEPTED"},
		{name: "engine call fails", fault: "error"},
	}
}

func c08History(c *vc.Ctx, idx int) {
	nn := 2 + idx%3
	cfg := lockCfg{Label: "c08", NVals: nn, NNodes: nn, Rotate: true, MaxVals: int64(nn + 1), Blocks: c.Pick(24, 70), JumpTime: idx%2 == 0, NRelayers: 3,
		W:       lockWeights{Create: 8, Lock: 40, Unlock: 45, Claim: 25, Grant: 10, Weight: 6, Threshold: 6, Absent: 12, Evidence: 3, BigUnlock: 10},
		Relayer: func(g *relayertypes.GenesisState) { g.Params.ElectingPeriod = 25 * time.Second }}
	if idx%3 == 1 {
		cfg.MempoolMax = 64 // an operator may raise the shipped default of 10: 'whatever the mempool contents'
	}
	var h *lockHist
	mutants := c08Mutants()
	accepted := map[string]int{}
	cfg.StepOpts = func(so *world.StepOpts) {
		so.AfterPrepare = func(prop int, ht int64, t time.Time, txs [][]byte, lc abci.CommitInfo) {
			c.Count("honest_proposals", 1)
			if len(txs) > 1 {
				c.Count("honest_proposals_with_mempool_txs", 1)
			}
			p := world.DecodeBlockTx(h.ch.W, txs)
			if p == nil {
				c.Violation("honest proposer built an undecodable block message", fmt.Sprintf("height %d", ht), h.replay())
				return
			}
			if nsys(p) > 0 {
				c.Count("honest_proposals_with_system_txs", 1)
			}
			if ht%3 != 0 {
				return
			}
			env := &c08Env{h: h, prop: prop, height: ht, txs: txs, payload: p}
			for _, m := range mutants {
				var mt [][]byte
				if m.fault != "" {
					mt = txs
				} else {
					mt = m.build(env)
					if mt == nil {
						continue
					}
				}
				c.Eval(1)
				for i, n := range h.ch.Nodes {
					if m.fault != "" {
						n.EL.AddFault(&world.Fault{Method: "newPayload", Phase: "process", Kind: m.fault, Sticky: true})
					}
					ok, _ := h.ch.Process(i, prop, ht, t, mt, lc, h.ops.Evidence)
					n.EL.ClearFaults()
					isControl := len(m.name) > 8 && m.name[:8] == "control:"
					switch {
					case isControl && ok:
						accepted[m.name]++
						c.Count("mutation_path_controls_accepted", 1)
					case isControl:
						c.Count("mutation_path_controls_rejected", 1)
					case ok:
						c.Count("ACCEPTED "+m.name, 1)
						c.Violation("malformed proposal accepted: "+m.name, fmt.Sprintf("height %d, node %d (proposer %d) answered ACCEPT", ht, i, prop), h.replay())
					default:
						c.Count("malformed_proposals_rejected", 1)
						c.Count("rejected "+m.name, 1)
					}
				}
				c.Nontrivial("mutant=%s nsys=%d txs=%d", m.name, nsys(p), len(txs))
			}
		}
	}
	var err error
	h, err = newLockHist(c, cfg, idx)
	if err != nil {
		c.Inconclusive("setup: %v", err)
		return
	}
	defer h.close()
	for _, n := range h.ch.Nodes {
		n.EL.Jitter = 4 * time.Millisecond
		if idx%3 == 1 {
			n.EL.ExcessBlob = 393216 * uint64(1+idx%4) // a non-zero excess blob gas in every honest payload (blob gas used stays 0)
		}
	}
	h.crashFn = func(cr *world.ErrCrash) {
		c.Violation("block processing failed on an honest proposal: "+errClass(cr.Err.Error()), cr.Error(), h.replay())
	}
	h.rejectFn = func(rj *world.ErrRejected) {
		c.Violation("honest proposal rejected", rj.Error(), h.replay())
	}
	bm := newBridgeModel(c.Seed, h.ch.W.BtcKey)
	r := world.NewRand(c.Seed, "c08mem", idx)
	for b := 0; b < cfg.Blocks && !h.failed; b++ {
		// gossip relayer transactions into every node's mempool
		g, gerr := h.ch.Group()
		var good voteMsg
		if gerr == nil {
			num, seq, _ := h.ch.Account(g.Proposer.Addr)
			k := r.Intn(5)
			flood := cfg.MempoolMax > 10 && b%5 == 2
			if flood {
				k = 18 + r.Intn(8) // more admissible transactions than a block may carry
				c.Count("mempool_floods", 1)
			}
			var specs []world.TxSpec
			s := seq
			for i := 0; i < k; i++ {
				x := r.Intn(9)
				if flood {
					x = []int{0, 2, 6}[r.Intn(3)]
				}
				switch x {
				case 0, 1:
					if good == nil {
						good, _ = bm.payload("hashes", g.Proposer.AddrStr, b)
						v, _ := h.ch.QuorumVote(g, good)
						setVote(good, v)
						specs = append(specs, world.TxSpec{Msgs: []sdk.Msg{good}, Priv: g.Proposer.Tx, AccNum: num, Seq: s})
						s++
					}
				case 2:
					bad, _ := bm.payload("consolidation", g.Proposer.AddrStr, b*7+i)
					v, _ := h.ch.QuorumVote(g, bad)
					v.Epoch += 3
					setVote(bad, v)
					specs = append(specs, world.TxSpec{Msgs: []sdk.Msg{bad}, Priv: g.Proposer.Tx, AccNum: num, Seq: s})
					s++
				case 3: // nonce gap
					m := &relayertypes.MsgAcceptProposerRequest{Proposer: g.Proposer.AddrStr, Epoch: g.Epoch}
					specs = append(specs, world.TxSpec{Msgs: []sdk.Msg{m}, Priv: g.Proposer.Tx, AccNum: num, Seq: s + 4})
				case 4: // timeout height that expires before the next block
					m := &relayertypes.MsgAcceptProposerRequest{Proposer: g.Proposer.AddrStr, Epoch: g.Epoch}
					specs = append(specs, world.TxSpec{Msgs: []sdk.Msg{m}, Priv: g.Proposer.Tx, AccNum: num, Seq: s, Timeout: uint64(h.ch.Height)})
				case 5: // a voter that is not the proposer
					if len(g.Voters) > 0 && g.Voters[0] != nil {
						vn, vs, _ := h.ch.Account(g.Voters[0].Addr)
						m := &relayertypes.MsgAcceptProposerRequest{Proposer: g.Voters[0].AddrStr, Epoch: g.Epoch}
						specs = append(specs, world.TxSpec{Msgs: []sdk.Msg{m}, Priv: g.Voters[0].Tx, AccNum: vn, Seq: vs})
					}
				case 7, 8: // an execution-block message offered to the mempool (by the relayer proposer, or by a validator): never admissible there
					if p := h.lastPayload(); p != nil {
						m := &goatxtypes.MsgNewEthBlock{Proposer: g.Proposer.AddrStr, Payload: p}
						sp := world.TxSpec{Msgs: []sdk.Msg{m}, Priv: g.Proposer.Tx, AccNum: num, Seq: s}
						if x == 8 {
							sp.Timeout = uint64(h.ch.Height + 1)
						}
						specs = append(specs, sp)
						if r.Intn(2) == 0 {
							vn, vs, _ := h.ch.Account(sdk.AccAddress(h.ch.W.Vals[0].Cons))
							m2 := &goatxtypes.MsgNewEthBlock{Proposer: h.ch.W.ValAddrStr(0), Payload: p}
							specs = append(specs, world.TxSpec{Msgs: []sdk.Msg{m2}, Priv: h.ch.W.ValPriv(0), AccNum: vn, Seq: vs, Timeout: uint64(h.ch.Height + 1)})
						}
					}
				case 6: // malformed deposits
					dep := &bitcointypes.MsgNewDeposits{Proposer: g.Proposer.AddrStr, BlockHeaders: []*bitcointypes.BlockHeader{{Height: 1, Raw: make([]byte, 80)}},
						Deposits: []*bitcointypes.Deposit{{Version: 0, BlockNumber: 1, TxIndex: 1, NoWitnessTx: make([]byte, 100), EvmAddress: make([]byte, 20), RelayerPubkey: h.ch.W.BtcKey}}}
					specs = append(specs, world.TxSpec{Msgs: []sdk.Msg{dep}, Priv: g.Proposer.Tx, AccNum: num, Seq: s})
					s++
				}
			}
			for _, sp := range specs {
				raw, err := h.ch.W.SignTx(sp)
				if err != nil {
					continue
				}
				for i := range h.ch.Nodes {
					res, err := h.ch.CheckTx(i, raw, false)
					if err == nil && res.Code == 0 {
						c.Count("mempool_admissions", 1)
					} else {
						c.Count("mempool_refusals", 1)
					}
				}
			}
		}
		// bridge activity fills the bridge queue too
		h.extra = func(o *blockOps) {
			if r.Intn(4) == 0 {
				o.Reqs.Bridge.Withdraws = bm.withdrawRequests(1 + r.Intn(3))
				o.Desc = append(o.Desc, "withdrawal requests")
			}
			if r.Intn(6) == 0 {
				o.Reqs.Bridge.Withdraws = append(o.Reqs.Bridge.Withdraws, &goattypes.WithdrawalRequest{Id: 100000 + uint64(b), Amount: 5000, TxPrice: 1, Address: "not-an-address"})
				bm.maxWd += 0
				o.Desc = append(o.Desc, "withdrawal to an undecodable address (refunded)")
			}
		}
		if !h.step() {
			break
		}
		blk := h.blk
		c.Eval(1)
		if !blk.BlockOK {
			c.Violation("honest block message failed when finalised: "+failClass(blk.Resp.TxResults[0].Log), fmt.Sprintf("height %d: %s", blk.Height, blk.Resp.TxResults[0].Log), h.replay())
			break
		}
		c.Count("honest_block_messages_succeeded", 1)
		c.Nontrivial("honest txs=%d nsys=%d nodes=%d", len(blk.Req.Txs), nsys(blk.Payload), nn)
		if good != nil {
			for i := 1; i < len(blk.Resp.TxResults); i++ {
				// find the good tx by success + kind: the model only needs to know whether the tip moved
				_ = i
			}
			if tip, err := btcTip(h.ch); err == nil && tip > bm.tip {
				bm.tip = tip
			}
		}
	}
	if cfg.Blocks >= 6 && len(accepted) == 0 && !h.failed {
		c.Count("histories_without_an_accepted_mutation_path_control", 1) // judged over the whole run (checkconf.json: require_observed)
	}
	c.Sample(map[string]any{"nodes": nn, "blocks": h.ch.Height, "mutation_operators": len(mutants), "last_ops": lastN(h.opsLog, 3)})
}

func btcTip(ch *world.Chain) (uint64, error) {
	var r bitcointypes.QueryBlockTipResponse
	if err := ch.Nodes[0].Query("/goat.bitcoin.v1.Query/BlockTip", &bitcointypes.QueryBlockTipRequest{}, &r); err != nil {
		return 0, err
	}
	return r.Height, nil
}

// c08Solo is the single-node part of clause (a): long histories of well-behaved locking traffic (the requests a correct
// locking contract can emit, which does not know about slashing: unlocks above what is left, unlocks of tokens that
// were slashed away, claims and locks for jailed or exited validators, dust) under heavy punishment. Whatever state
// this reaches, the honest proposal must be accepted and its block message must succeed.
func c08Solo(c *vc.Ctx, idx int) {
	if os.Getenv("VERIF_SANITIZER_BUILD") != "" {
		c.Count("solo_histories_left_to_the_plain_build", 1)
		return
	}
	r := world.NewRand(c.Seed, "c08solo", idx)
	nv := 2 + r.Intn(4)
	step := time.Duration(2+r.Intn(3)) * time.Second
	cfg := lockCfg{Label: "c08solo", NVals: nv, MaxVals: int64(1 + r.Intn(nv+1)), Blocks: c.Pick(70, 160), Protect0: true, JumpTime: idx%2 == 0, TargetPunished: true, EvidenceAges: idx%3 == 0, Step: step, TimeEdges: true,
		W: lockWeights{Create: 8, Lock: 45, Unlock: 55, Claim: 20, Grant: 6, Weight: 6, Threshold: 8, Absent: 35, Evidence: 8, DustLock: 12, BigUnlock: 25},
		Params: func(p *lockingtypes.Params) {
			p.SignedBlocksWindow = int64(5 + r.Intn(5))
			p.MaxMissedPerWindow = int64(2 + r.Intn(2))
			p.DowntimeJailDuration = 20 * time.Second
			p.UnlockDuration = time.Duration(1+r.Intn(5)) * step
			p.ExitingDuration = p.UnlockDuration + time.Duration(r.Intn(4))*step
			if idx%4 == 3 {
				p.SlashFractionDowntime = math.LegacyNewDecWithPrec(5, 1) // half of everything, dust goes completely
				p.SlashFractionDoubleSign = math.LegacyOneDec()
			}
		}}
	h, err := newLockHist(c, cfg, idx)
	if err != nil {
		c.Inconclusive("setup: %v", err)
		return
	}
	defer h.close()
	h.crashFn = func(cr *world.ErrCrash) {
		c.Violation("block processing failed on an honest proposal: "+errClass(cr.Err.Error()), cr.Error(), h.replay())
	}
	h.rejectFn = func(rj *world.ErrRejected) {
		c.Violation("honest proposal rejected", rj.Error(), h.replay())
	}
	for b := 0; b < cfg.Blocks && !h.failed; b++ {
		// every seventh block the execution layer fills its block with user transactions (about half a megabyte): the
		// honest block message carries them all and must still be accepted and succeed
		if b%7 == 5 {
			var big [][]byte
			for k := 0; k < 12; k++ {
				big = append(big, bytes.Repeat(world.Derive(c.Seed, "c08bigtx", idx*1000+b*16+k), 1280)) // 40 KiB each
			}
			h.ch.Nodes[0].EL.UserTxs = big
			c.Count("honest_payloads_of_half_a_megabyte", 1)
		} else {
			h.ch.Nodes[0].EL.UserTxs = nil
		}
		if !h.step() {
			break
		}
		c.Eval(1)
		if !h.blk.BlockOK {
			c.Violation("honest block message failed when finalised: "+failClass(h.blk.Resp.TxResults[0].Log), fmt.Sprintf("height %d: %s", h.blk.Height, h.blk.Resp.TxResults[0].Log), h.replay())
			break
		}
		c.Count("honest_block_messages_succeeded", 1)
		c.Nontrivial("solo nsys=%d unlocks=%d punished=%v", nsys(h.blk.Payload), len(h.ops.unlocks), len(h.ops.Evidence) > 0 || len(h.ops.Absent) > 0)
	}
	c.Sample(map[string]any{"solo": true, "validators": nv, "blocks": h.ch.Height, "last_ops": lastN(h.opsLog, 3)})
}

func init() {
	vc.Register(&vc.Check{
		ID: "C08", Title: "Honest proposals are always accepted; accepted proposals are well-formed", Level: "exploration",
		Rule: "one case = one cluster history (2..4 validators each running a node, CometBFT proposer rotation, 24/70 blocks) on a well-behaved execution layer: random locking requests (unlock bursts, claims >16, maturing unlocks), withdrawals, elections every 25 s, " +
			"and relayer transactions gossiped into every mempool (valid votes, invalid votes, nonce gaps, expiring timeouts, non-proposer senders, malformed deposits). (a) every honest proposal must have <= 16 txs, be ACCEPTed by every node and its block message must succeed; " +
			"(b) every third height the honest proposal is mutated by 28 operators (block message missing/second/duplicated/accompanied/bundled in a later transaction, foreign message, wrong parent/number/beacon root/author/recipient, system txs dropped/duplicated/reordered/altered/extra/miscounted, 0 or 2 gas requests, unknown-type or empty requests, future timestamp, nil payload, engine INVALID/SYNCING/ACCEPTED/error) with block hashes recomputed so that only the consensus-side checks can object, plus ten operators that change one payload field or the request list under the unchanged block hash (which the engine must catch, provided every field reaches it); every node must refuse each; " +
			"(a') 12/120 further single-node histories (70/160 blocks) of well-behaved locking traffic under heavy punishment (short windows, half/all slashed in every fourth): unlocks above what slashing left, of tokens slashed away, dust, claims and locks for jailed or exited validators; honest proposal accepted and block message succeeds in every block, including every seventh one whose payload carries half a megabyte of user transactions; " +
			"(c) the cluster workload runs on the race-detector build with 0-4 ms engine jitter; every distinct race report with a goat frame is a violation. Non-trivial = every honest proposal and every mutant; distinct = (operator, system txs, txs).",
		Assume: []string{"the fake execution client validates block hash consistency and known parents only", "race coverage is what the executed interleavings exhibit"},
		Cases:  func(tier string) int { return map[string]int{"quick": 9 + 12, "thorough": 90 + 120}[tier] },
		Run: func(c *vc.Ctx, i int) {
			nCluster := map[string]int{"quick": 9, "thorough": 90}[c.Tier]
			if i < nCluster {
				c08History(c, i)
			} else {
				c08Solo(c, i-nCluster)
			}
		},
	})
}

var _ = math.NewInt
