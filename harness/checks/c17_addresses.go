package checks

import (
	"bytes"
	"encoding/hex"
	"fmt"
	"io"
	"os"
	"strings"

	"github.com/btcsuite/btcd/btcec/v2"
	"github.com/btcsuite/btcd/btcec/v2/schnorr"
	"github.com/btcsuite/btcd/btcutil"
	"github.com/btcsuite/btcd/btcutil/base58"
	"github.com/btcsuite/btcd/btcutil/bech32"
	"github.com/btcsuite/btcd/chaincfg"
	"github.com/btcsuite/btcd/txscript"
	"github.com/ethereum/go-ethereum/core/types/goattypes"
	"github.com/goatnetwork/goat/cmd/goatd/cmd/modgen"
	bitcointypes "github.com/goatnetwork/goat/x/bitcoin/types"
	relayertypes "github.com/goatnetwork/goat/x/relayer/types"

	"verif/harness/vc"
	"verif/harness/world"
)

var c17Nets = []*chaincfg.Params{&chaincfg.MainNetParams, &chaincfg.TestNet3Params, &chaincfg.SigNetParams, &chaincfg.RegressionNetParams}

// scriptOfAddress rebuilds the output script from an address string with explicit opcodes
// (bech32 / base58 decoding by the btcutil codec packages only; no script library, no /repo code).
func scriptOfAddress(addr string) ([]byte, string, error) {
	if i := strings.LastIndexByte(addr, '1'); i > 0 && len(addr) > 8 && (strings.HasPrefix(strings.ToLower(addr), "bc1") || strings.HasPrefix(strings.ToLower(addr), "tb1") || strings.HasPrefix(strings.ToLower(addr), "bcrt1")) {
		hrp, data, ver, err := bech32.DecodeGeneric(addr)
		if err != nil {
			return nil, "", err
		}
		if len(data) < 1 {
			return nil, "", fmt.Errorf("no witness version")
		}
		wv := data[0]
		prog, err := bech32.ConvertBits(data[1:], 5, 8, false)
		if err != nil {
			return nil, "", err
		}
		if (wv == 0) != (ver == bech32.Version0) {
			return nil, "", fmt.Errorf("checksum variant does not match witness version")
		}
		op := byte(0)
		if wv > 0 {
			op = 0x50 + wv
		}
		return append([]byte{op, byte(len(prog))}, prog...), hrp, nil
	}
	payload, version, err := base58.CheckDecode(addr)
	if err != nil {
		return nil, "", err
	}
	if len(payload) != 20 {
		return nil, "", fmt.Errorf("payload length %d", len(payload))
	}
	switch version {
	case 0x00, 0x6f: // p2pkh main / test
		return append(append([]byte{0x76, 0xa9, 0x14}, payload...), 0x88, 0xac), fmt.Sprintf("b58:%02x", version), nil
	case 0x05, 0xc4: // p2sh main / test
		return append(append([]byte{0xa9, 0x14}, payload...), 0x87), fmt.Sprintf("b58:%02x", version), nil
	}
	return nil, "", fmt.Errorf("unknown version %x", version)
}

func c17Key(seed uint64, i int, schnorrKey bool) *relayertypes.PublicKey {
	return world.BtcPubKey(world.Derive(seed, "c17key", i), schnorrKey)
}

// flipEach calls f with every single-bit mutation of every byte of b, and with every byte replaced by the opcodes and
// push lengths that are meaningful in output scripts (other witness versions, other program lengths, OP_RETURN).
func flipEach(b []byte, f func(mut []byte, pos int)) {
	for i := range b {
		for bit := uint(0); bit < 8; bit++ {
			m := append([]byte(nil), b...)
			m[i] ^= 1 << bit
			f(m, i)
		}
		for _, v := range []byte{0x00, 0x51, 0x52, 0x60, 0x14, 0x20, 0x21, 0x6a, 0xff} {
			if b[i] == v {
				continue
			}
			m := append([]byte(nil), b...)
			m[i] = v
			f(m, i)
		}
	}
}

func c17RoundTrip(c *vc.Ctx, batch int) {
	n := c.Pick(60, 400)
	r := world.NewRand(c.Seed, "c17", batch)
	// what was handed out earlier (address string and data-output script, exactly the objects the builder returned) is
	// checked again after later builder and verifier calls: an answer must not change once it has been given
	type handedOut struct {
		key         *relayertypes.PublicKey
		magic, evm  []byte
		addr        string
		data, dataC []byte // the returned slice itself, and a copy taken at once
	}
	var kept []handedOut
	recheck := func() {
		for _, h := range kept {
			c.Eval(1)
			s1, _, err := scriptOfAddress(h.addr)
			if err != nil {
				continue
			}
			if !bytes.Equal(h.data, h.dataC) {
				c.Violation("a data-output script handed out earlier changed after later calls", fmt.Sprintf("%x became %x", h.dataC, h.data), nil)
			} else if err := bitcointypes.VerifyDespositScriptV1(h.key, h.magic, h.evm, s1, h.data); err != nil {
				c.Violation("deposit verification refuses a v1 address/data output handed out earlier", fmt.Sprintf("%s %x: %v", h.addr, h.data, err), nil)
			}
			c.Count("earlier_answers_checked_again", 1)
		}
	}
	defer recheck()
	for k := 0; k < n; k++ {
		if k%7 == 6 {
			recheck()
			if len(kept) > 12 {
				kept = kept[len(kept)-6:]
			}
		}
		schn := r.Intn(2) == 1
		net := c17Nets[r.Intn(4)]
		key := c17Key(c.Seed, batch*100000+k, schn)
		key2 := c17Key(c.Seed, batch*100000+k+50000, schn)
		evm := make([]byte, 20)
		r.Read(evm)
		if schn && k%5 == 0 {
			// directed: an EVM address whose tweaked taproot output key starts with a zero byte (about one in 256; found by
			// search), the value a fixed-width encoding and a big-integer rendering disagree on
			if pub, err := schnorr.ParsePubKey(key.GetSchnorr()); err == nil {
				for t := 0; t < 4000; t++ {
					cand := world.Derive(c.Seed, fmt.Sprintf("c17zero/%d/%d", batch, k), t)[:20]
					if schnorr.SerializePubKey(txscript.ComputeTaprootOutputKey(pub, cand))[0] == 0 {
						evm = cand
						c.Count("taproot_output_keys_with_a_leading_zero_byte", 1)
						break
					}
				}
			}
		}
		evm2 := append([]byte(nil), evm...)
		evm2[r.Intn(20)] ^= 1 << uint(r.Intn(8))
		magic := make([]byte, 4)
		r.Read(magic)
		viol := func(sig, detail string) {
			c.Violation(sig, detail, map[string]any{"key": fmt.Sprintf("%x", relayertypes.EncodePublicKey(key)), "evm": hex.EncodeToString(evm), "net": net.Name, "magic": hex.EncodeToString(magic)})
		}
		// ---- version 0 ----
		c.Eval(1)
		a0, err := bitcointypes.DepositAddressV0(key, evm, net)
		if err != nil {
			viol("deposit address v0 cannot be built for a valid key", err.Error())
			continue
		}
		script, hrp, err := scriptOfAddress(a0.EncodeAddress())
		if err != nil {
			viol("deposit address v0 handed out is not a decodable address", fmt.Sprintf("%s: %v", a0.EncodeAddress(), err))
			continue
		}
		if hrp != net.Bech32HRPSegwit {
			viol("deposit address is for another network", fmt.Sprintf("%s has prefix %s, network %s", a0.EncodeAddress(), hrp, net.Name))
		}
		if err := bitcointypes.VerifyDespositScriptV0(key, evm, script); err != nil {
			viol("deposit verification refuses the v0 address the node hands out", fmt.Sprintf("schnorr=%v address %s script %x: %v", schn, a0.EncodeAddress(), script, err))
		}
		if bitcointypes.VerifyDespositScriptV0(key2, evm, script) == nil {
			viol("v0 deposit script accepted for another relayer key", a0.EncodeAddress())
		}
		if bitcointypes.VerifyDespositScriptV0(key, evm2, script) == nil {
			viol("v0 deposit script accepted for another EVM address", a0.EncodeAddress())
		}
		if bitcointypes.VerifyDespositScriptV0(c17Key(c.Seed, batch*100000+k, !schn), evm, script) == nil {
			viol("v0 deposit script accepted for the same secret under the other key type", a0.EncodeAddress())
		}
		flipEach(script, func(m []byte, pos int) {
			c.Eval(1)
			if bitcointypes.VerifyDespositScriptV0(key, evm, m) == nil {
				viol("mutated v0 deposit script accepted", fmt.Sprintf("byte %d of %x", pos, script))
			}
		})
		for _, l := range []int{0, 1, 21, 22, 33, 35} {
			if l <= len(script) && bitcointypes.VerifyDespositScriptV0(key, evm, script[:min(l, len(script))]) == nil {
				viol("truncated v0 deposit script accepted", fmt.Sprint(l))
			}
		}
		c.Nontrivial("v0 schnorr=%v net=%s", schn, net.Name)
		// ---- version 1 ----
		a1, data, err := bitcointypes.DepositAddressV1(key, magic, evm, net)
		if schn {
			if err == nil {
				viol("version 1 deposit address handed out for a schnorr key", a1.EncodeAddress())
			}
			if bitcointypes.VerifyDespositScriptV1(key, magic, evm, append([]byte{0, 20}, make([]byte, 20)...), append([]byte{0x6a, 0x18}, append(magic, evm...)...)) == nil {
				viol("version 1 deposit verified for a schnorr key", "")
			}
			c.Nontrivial("v1 refused for schnorr net=%s", net.Name)
			continue
		}
		if err != nil {
			viol("deposit address v1 cannot be built for a valid ECDSA key", err.Error())
			continue
		}
		s1, hrp1, err := scriptOfAddress(a1.EncodeAddress())
		if err != nil || hrp1 != net.Bech32HRPSegwit {
			viol("deposit address v1 handed out is not a decodable address of the network", fmt.Sprintf("%s: %v", a1.EncodeAddress(), err))
			continue
		}
		if err := bitcointypes.VerifyDespositScriptV1(key, magic, evm, s1, data); err != nil {
			viol("deposit verification refuses the v1 address/data output the node hands out", fmt.Sprintf("%s %x: %v", a1.EncodeAddress(), data, err))
		}
		kept = append(kept, handedOut{key: key, magic: append([]byte(nil), magic...), evm: append([]byte(nil), evm...), addr: a1.EncodeAddress(), data: data, dataC: append([]byte(nil), data...)})
		if bitcointypes.VerifyDespositScriptV1(key2, magic, evm, s1, data) == nil {
			viol("v1 deposit outputs accepted for another relayer key", "")
		}
		if bitcointypes.VerifyDespositScriptV1(key, magic, evm2, s1, data) == nil {
			viol("v1 deposit outputs accepted for another EVM address", "")
		}
		m2 := append([]byte(nil), magic...)
		m2[0] ^= 0x10
		if bitcointypes.VerifyDespositScriptV1(key, m2, evm, s1, data) == nil {
			viol("v1 deposit outputs accepted under another magic prefix", "")
		}
		flipEach(s1, func(m []byte, pos int) {
			c.Eval(1)
			if bitcointypes.VerifyDespositScriptV1(key, magic, evm, m, data) == nil {
				viol("mutated v1 key-hash output accepted", fmt.Sprintf("byte %d", pos))
			}
		})
		flipEach(data, func(m []byte, pos int) {
			c.Eval(1)
			if bitcointypes.VerifyDespositScriptV1(key, magic, evm, s1, m) == nil {
				viol("mutated v1 data output accepted", fmt.Sprintf("byte %d", pos))
			}
		})
		// the v0 verifier must not take v1 outputs and vice versa
		if bitcointypes.VerifyDespositScriptV0(key, evm, s1) == nil {
			viol("v1 key-hash output accepted as a v0 deposit script", "")
		}
		if bitcointypes.VerifyDespositScriptV1(key, magic, evm, script, data) == nil {
			viol("v0 script accepted as v1 key-hash output", "")
		}
		c.Nontrivial("v1 net=%s", net.Name)
		if k == 0 {
			c.Sample(map[string]any{"net": net.Name, "v0_address": a0.EncodeAddress(), "v0_script": fmt.Sprintf("%x", script), "v1_address": a1.EncodeAddress(), "v1_data_output": fmt.Sprintf("%x", data)})
		}
	}
}

type addrCase struct {
	Str    string
	Script []byte // expected script when it must be accepted
	Expect int    // 1 accept with exactly Script, 0 must be refused, 2 either
	Kind   string
}

func encSegwit(hrp string, ver byte, prog []byte, m bool) string {
	conv, _ := bech32.ConvertBits(prog, 8, 5, true)
	data := append([]byte{ver}, conv...)
	var s string
	if m {
		s, _ = bech32.EncodeM(hrp, data)
	} else {
		s, _ = bech32.Encode(hrp, data)
	}
	return s
}

// c17AddrCases builds withdrawal address strings with ground truth for network own.
func c17AddrCases(seed uint64, batch, n int, own *chaincfg.Params) []addrCase {
	r := world.NewRand(seed, "c17addr/"+own.Name, batch)
	var out []addrCase
	foreignB58 := func(o *chaincfg.Params) bool { return o.PubKeyHashAddrID != own.PubKeyHashAddrID }
	foreignHRP := func(o *chaincfg.Params) bool { return o.Bech32HRPSegwit != own.Bech32HRPSegwit }
	for k := 0; k < n; k++ {
		h20 := make([]byte, 20)
		h32 := make([]byte, 32)
		r.Read(h20)
		r.Read(h32)
		for _, net := range c17Nets {
			exp := func(foreign bool) int {
				if foreign {
					return 0
				}
				return 1
			}
			p2pkh := base58.CheckEncode(h20, net.PubKeyHashAddrID)
			out = append(out, addrCase{p2pkh, append(append([]byte{0x76, 0xa9, 0x14}, h20...), 0x88, 0xac), exp(foreignB58(net)), "p2pkh/" + net.Name})
			p2sh := base58.CheckEncode(h20, net.ScriptHashAddrID)
			out = append(out, addrCase{p2sh, append(append([]byte{0xa9, 0x14}, h20...), 0x87), exp(foreignB58(net)), "p2sh/" + net.Name})
			out = append(out, addrCase{encSegwit(net.Bech32HRPSegwit, 0, h20, false), append([]byte{0x00, 0x14}, h20...), exp(foreignHRP(net)), "p2wpkh/" + net.Name})
			out = append(out, addrCase{encSegwit(net.Bech32HRPSegwit, 0, h32, false), append([]byte{0x00, 0x20}, h32...), exp(foreignHRP(net)), "p2wsh/" + net.Name})
			out = append(out, addrCase{encSegwit(net.Bech32HRPSegwit, 1, h32, true), append([]byte{0x51, 0x20}, h32...), exp(foreignHRP(net)), "p2tr/" + net.Name})
		}
		// own network, malformed
		good := encSegwit(own.Bech32HRPSegwit, 0, h20, false)
		out = append(out, addrCase{encSegwit(own.Bech32HRPSegwit, 0, h20, true), nil, 0, "v0-with-bech32m-checksum"})
		out = append(out, addrCase{encSegwit(own.Bech32HRPSegwit, 1, h32, false), nil, 0, "v1-with-bech32-checksum"})
		b := []byte(good)
		i := len(own.Bech32HRPSegwit) + 1 + r.Intn(len(b)-len(own.Bech32HRPSegwit)-1)
		if b[i] == 'q' {
			b[i] = 'p'
		} else {
			b[i] = 'q'
		}
		out = append(out, addrCase{string(b), nil, 0, "bech32-checksum-mutation"})
		mixed := []byte(good)
		for j := len(own.Bech32HRPSegwit) + 1; j < len(mixed); j++ {
			if mixed[j] >= 'a' && mixed[j] <= 'z' {
				mixed[j] -= 32
				break
			}
		}
		out = append(out, addrCase{string(mixed), nil, 0, "bech32-mixed-case"})
		out = append(out, addrCase{strings.ToUpper(good), append([]byte{0x00, 0x14}, h20...), 1, "bech32-all-uppercase"}) // BIP173: decoders accept either case (not mixed); the script is the same
		out = append(out, addrCase{encSegwit(own.Bech32HRPSegwit, 0, h20[:19], false), nil, 0, "v0-program-19-bytes"})
		out = append(out, addrCase{encSegwit(own.Bech32HRPSegwit, 2, h32, true), nil, 2, "future-witness-version"})
		p := base58.CheckEncode(h20, own.PubKeyHashAddrID)
		pb := []byte(p)
		pb[len(pb)-1] = map[bool]byte{true: '2', false: '1'}[pb[len(pb)-1] == '1']
		out = append(out, addrCase{string(pb), nil, 0, "base58-checksum-mutation"})
		// legacy pay-to-pubkey: the hex of a public key
		_, pub := btcec.PrivKeyFromBytes(h32)
		out = append(out, addrCase{hex.EncodeToString(pub.SerializeCompressed()), nil, 0, "p2pk-compressed-hex"})
		out = append(out, addrCase{hex.EncodeToString(pub.SerializeUncompressed()), nil, 0, "p2pk-uncompressed-hex"})
		// a standard address of the configured network with blanks around it is not an address: what is stored and later
		// decoded for paying is the string as given
		for wi, ws := range [][2]string{{"", " "}, {" ", ""}, {"", "\n"}, {"\t", ""}, {"", "\r\n"}, {" ", " "}} {
			base := good
			if wi%2 == 1 {
				base = p
			}
			out = append(out, addrCase{ws[0] + base + ws[1], nil, 0, "blank-padded-standard-address"})
		}
		out = append(out, addrCase{"", nil, 0, "empty"})
		out = append(out, addrCase{hex.EncodeToString(h20), nil, 0, "junk-hex"})
		out = append(out, addrCase{"bc1" + strings.Repeat("q", 3+r.Intn(60)), nil, 0, "junk-bech32"})
	}
	return out
}

func c17Decode(c *vc.Ctx, batch int) {
	own := c17Nets[batch%4]
	cases := c17AddrCases(c.Seed, batch, c.Pick(25, 250), own)
	for _, ac := range cases {
		c.Eval(1)
		got, err := bitcointypes.DecodeBtcAddress(ac.Str, own)
		c.Nontrivial("own=%s kind=%s accepted=%v", own.Name, ac.Kind, err == nil)
		switch ac.Expect {
		case 1:
			if err != nil {
				c.Violation("standard address of the configured network refused", fmt.Sprintf("%s on %s (%s): %v", ac.Str, own.Name, ac.Kind, err), ac)
			} else if !bytes.Equal(got, ac.Script) {
				c.Violation("address decoded to another script than it encodes", fmt.Sprintf("%s (%s): got %x want %x", ac.Str, ac.Kind, got, ac.Script), ac)
			}
		case 0:
			if err == nil {
				c.Violation("address that must be refused was decoded: "+strings.SplitN(ac.Kind, "/", 2)[0], fmt.Sprintf("%q on %s (%s) -> %x", ac.Str, own.Name, ac.Kind, got), ac)
			}
		case 2:
			if err == nil && ac.Script != nil && !bytes.Equal(got, ac.Script) {
				c.Violation("address decoded to another script than it encodes", fmt.Sprintf("%s (%s): got %x want %x", ac.Str, ac.Kind, got, ac.Script), ac)
			}
		}
	}
	c.Sample(map[string]any{"network": own.Name, "addresses_judged": len(cases), "examples": []string{cases[0].Str, cases[2].Str, cases[4].Str}})
}

// c17App drives addresses through the application: Query/DepositAddress and withdrawal requests.
func c17App(c *vc.Ctx, idx int) {
	own := c17Nets[idx%4]
	schn := (idx/4)%2 == 1
	w, err := world.New(world.Config{Seed: c.Seed, Label: fmt.Sprintf("c17-%d", idx), Schnorr: schn,
		Bitcoin: func(g *bitcointypes.GenesisState) { g.Params.NetworkName = own.Name }})
	if err != nil {
		c.Inconclusive("world: %v", err)
		return
	}
	ch, err := world.NewChain(w)
	if err != nil {
		c.Inconclusive("chain: %v", err)
		w.Cleanup()
		return
	}
	defer ch.Close()
	if _, err := ch.Step(world.StepOpts{}); err != nil {
		c.Inconclusive("step: %v", err)
		return
	}
	r := world.NewRand(c.Seed, "c17app", idx)
	// deposit addresses from the query service must be what the builders give and what the verifier takes
	for k := 0; k < c.Pick(20, 100); k++ {
		evm := make([]byte, 20)
		r.Read(evm)
		for ver := uint32(0); ver < 3; ver++ {
			c.Eval(1)
			var resp bitcointypes.QueryDepositAddressResponse
			err := ch.Node().Query("/goat.bitcoin.v1.Query/DepositAddress", &bitcointypes.QueryDepositAddress{Version: ver, EvmAddress: "0x" + hex.EncodeToString(evm)}, &resp)
			switch {
			case ver == 2 || (ver == 1 && schn):
				if err == nil {
					c.Violation("deposit address query answered for an unsupported version/key combination", fmt.Sprintf("version %d schnorr=%v -> %s", ver, schn, resp.Address), nil)
				}
				continue
			case err != nil:
				c.Violation("deposit address query failed for a supported combination", fmt.Sprintf("version %d schnorr=%v: %v", ver, schn, err), nil)
				continue
			}
			script, hrp, derr := scriptOfAddress(resp.Address)
			if derr != nil || hrp != own.Bech32HRPSegwit || resp.NetworkName != own.Name {
				c.Violation("deposit address from the query is not an address of the configured network", fmt.Sprintf("%s (network %s): %v", resp.Address, resp.NetworkName, derr), nil)
				continue
			}
			if ver == 0 {
				if err := bitcointypes.VerifyDespositScriptV0(w.BtcKey, evm, script); err != nil {
					c.Violation("deposit verification refuses the v0 address the query hands out", fmt.Sprintf("%s: %v", resp.Address, err), nil)
				}
			} else {
				if err := bitcointypes.VerifyDespositScriptV1(w.BtcKey, []byte("GTT0"), evm, script, resp.OpReturnScript); err != nil {
					c.Violation("deposit verification refuses the v1 address/data output the query hands out", fmt.Sprintf("%s %x: %v", resp.Address, resp.OpReturnScript, err), nil)
				}
			}
			c.Nontrivial("query version=%d schnorr=%v net=%s", ver, schn, own.Name)
		}
	}
	// EVM address strings that do not denote 20 bytes: whatever the query handed out for them could never be accepted by
	// deposit checking (which takes exactly 20 bytes); other spellings of 20 bytes may be refused, but an answer must verify
	for k := 0; k < c.Pick(6, 30); k++ {
		evm := make([]byte, 21)
		r.Read(evm)
		hx := hex.EncodeToString(evm)
		type q struct {
			s    string
			evm  []byte // nil: the string denotes no 20-byte address
			kind string
		}
		qs := []q{
			{"0x" + hx[:38], nil, "19 bytes"}, {"0x" + hx, nil, "21 bytes"}, {"", nil, "empty"}, {"0x", nil, "prefix only"},
			{"0x" + hx[:39], nil, "odd number of digits"}, {"0xzz" + hx[:38], nil, "not hexadecimal"}, {"0x" + hx[:40] + " ", nil, "trailing blank"},
			{hx[:40], evm[:20], "no prefix"}, {"0X" + hx[:40], evm[:20], "capital prefix"}, {"0x" + strings.ToUpper(hx[:40]), evm[:20], "capital digits"},
		}
		for _, it := range qs {
			for ver := uint32(0); ver < 2; ver++ {
				if ver == 1 && schn {
					continue
				}
				c.Eval(1)
				var resp bitcointypes.QueryDepositAddressResponse
				err := ch.Node().Query("/goat.bitcoin.v1.Query/DepositAddress", &bitcointypes.QueryDepositAddress{Version: ver, EvmAddress: it.s}, &resp)
				c.Nontrivial("query evm-string=%s version=%d answered=%v", it.kind, ver, err == nil)
				if err != nil {
					c.Count("malformed_evm_strings_refused_by_the_query", 1)
					continue
				}
				if it.evm == nil {
					c.Violation("deposit address handed out for a string that is no 20-byte EVM address", fmt.Sprintf("%q (%s), version %d -> %s", it.s, it.kind, ver, resp.Address), nil)
					continue
				}
				script, _, derr := scriptOfAddress(resp.Address)
				if derr != nil {
					c.Violation("deposit address from the query is not an address of the configured network", fmt.Sprintf("%s: %v", resp.Address, derr), nil)
					continue
				}
				var verr error
				if ver == 0 {
					verr = bitcointypes.VerifyDespositScriptV0(w.BtcKey, it.evm, script)
				} else {
					verr = bitcointypes.VerifyDespositScriptV1(w.BtcKey, []byte("GTT0"), it.evm, script, resp.OpReturnScript)
				}
				if verr != nil {
					c.Violation("deposit verification refuses the address the query hands out", fmt.Sprintf("%q (%s) version %d -> %s: %v", it.s, it.kind, ver, resp.Address, verr), nil)
				}
			}
		}
	}
	// withdrawals: standard own-network addresses end pending, everything else is refunded
	cases := c17AddrCases(c.Seed, 1000+idx, 2, own)
	id := uint64(0)
	want := map[uint64]addrCase{}
	for len(cases) > 0 {
		n := min(len(cases), 12)
		var ws []*goattypes.WithdrawalRequest
		for _, ac := range cases[:n] {
			if ac.Str == "" {
				continue // goat-geth's request codec cannot carry an empty address at the end of a list
			}
			ws = append(ws, &goattypes.WithdrawalRequest{Id: id, Amount: 100000, TxPrice: 10, Address: ac.Str})
			want[id] = ac
			id++
		}
		cases = cases[n:]
		if _, err := ch.Step(world.StepOpts{Reqs: &world.Requests{Bridge: bridgeReqs(ws)}}); err != nil {
			c.Violation("block processing failed on withdrawal requests with hostile addresses", err.Error(), nil)
			return
		}
	}
	refunded := map[uint64]int{}
	for k := 0; k < int(id)/8+3; k++ {
		if _, err := ch.Step(world.StepOpts{}); err != nil {
			c.Inconclusive("drain: %v", err)
			return
		}
	}
	for _, b := range ch.Blocks {
		if b.BlockOK && b.Payload != nil {
			for i := 0; i < nsys(b.Payload); i++ {
				if st, err := world.DecodeSysTx(b.Payload.Transactions[i]); err == nil {
					if t, ok := st.Tx.(*goattypes.Cancel2Tx); ok {
						refunded[t.Id.Uint64()]++
					}
				}
			}
		}
	}
	for wid, ac := range want {
		c.Eval(1)
		var resp bitcointypes.QueryWithdrawalResponse
		if err := ch.Node().Query("/goat.bitcoin.v1.Query/Withdrawal", &bitcointypes.QueryWithdrawalRequest{Id: wid}, &resp); err != nil {
			c.Violation("withdrawal request was dropped", fmt.Sprintf("id %d address %q: %v", wid, ac.Str, err), nil)
			continue
		}
		st := resp.Withdrawal.Status
		switch ac.Expect {
		case 1:
			if st != bitcointypes.WITHDRAWAL_STATUS_PENDING || refunded[wid] != 0 {
				c.Violation("withdrawal to a standard address of the configured network was not left pending", fmt.Sprintf("%s (%s): status %s refunds %d", ac.Str, ac.Kind, st, refunded[wid]), nil)
			}
		case 0:
			if st != bitcointypes.WITHDRAWAL_STATUS_CANCELED || refunded[wid] != 1 {
				c.Violation("withdrawal to an address that must be refused was not refunded once: "+strings.SplitN(ac.Kind, "/", 2)[0], fmt.Sprintf("%q (%s): status %s refunds %d", ac.Str, ac.Kind, st, refunded[wid]), nil)
			}
		}
		c.Nontrivial("withdrawal kind=%s own=%s status=%s", ac.Kind, own.Name, st)
	}
	c.Count("withdrawal_addresses_through_the_application", len(want))
}

// c17Deposits: "accepted by deposit verification" taken at its word - real deposits. For EVM addresses at the edges of the
// range (all zero, all ones, one, top bit) and random ones, the node is asked for the deposit address (and data output),
// a Bitcoin transaction pays exactly what it handed out, the block is mined and voted, and the deposit is submitted for
// that key and EVM address: every one of them must be credited.
func c17Deposits(c *vc.Ctx, idx int) {
	special := [][]byte{make([]byte, 20), bytes.Repeat([]byte{0xff}, 20), append(make([]byte, 19), 1), append([]byte{0x80}, make([]byte, 19)...), append(make([]byte, 10), bytes.Repeat([]byte{0xff}, 10)...)}
	handed := 0
	res, ok := depositProbe(c, idx, "c17dep", []int{4, 5, 6}, func(n int) []byte {
		if n%2 == 0 {
			return special[(n/2+idx)%len(special)]
		}
		return nil
	}, func(b *bridgeHist, version uint32, evm []byte) ([][]byte, bool) {
		var resp bitcointypes.QueryDepositAddressResponse
		if err := b.lh.ch.Node().Query("/goat.bitcoin.v1.Query/DepositAddress", &bitcointypes.QueryDepositAddress{Version: version, EvmAddress: "0x" + hex.EncodeToString(evm)}, &resp); err != nil {
			c.Violation("deposit address query failed for a supported combination", fmt.Sprintf("version %d evm %x: %v", version, evm, err), nil)
			return nil, false
		}
		script, _, err := scriptOfAddress(resp.Address)
		if err != nil {
			c.Violation("deposit address from the query is not an address of the configured network", fmt.Sprintf("%s: %v", resp.Address, err), nil)
			return nil, false
		}
		handed++
		if version == 1 {
			return [][]byte{script, resp.OpReturnScript}, true
		}
		return [][]byte{script}, true
	})
	accepted := 0
	for _, r := range res {
		c.Eval(1)
		if r.code == 0 {
			accepted++
			c.Count("deposits_to_handed_out_addresses_credited", 1)
		}
		c.Nontrivial("deposit to a handed-out address: version=%d evm-class=%s credited=%v", r.d.Version, evmClass(r.d.Evm), r.code == 0)
	}
	c.Count("deposit_addresses_handed_out_for_real_deposits", handed)
	if !ok || accepted == 0 {
		if len(res) > 0 && accepted == 0 {
			c.Inconclusive("no deposit of the probe was credited (first answer: %s)", res[0].log)
		}
		return
	}
	for _, r := range res {
		if r.code != 0 {
			c.Violation("a deposit to the address the node handed out was refused by deposit verification", fmt.Sprintf("version %d, EVM address %x (%s): %s; %d other deposits of the probe were credited", r.d.Version, r.d.Evm, evmClass(r.d.Evm), errClass(r.log), accepted),
				map[string]any{"evm": hex.EncodeToString(r.d.Evm), "version": r.d.Version, "log": r.log})
		}
	}
}

// c17Tool: the node's command-line tool hands out deposit addresses too (`goatd modgen bitcoin deposit-address`). The real
// cobra command is run in-process for well-formed and malformed key inputs on every network; whenever it prints an address,
// deposit checking must accept that address for that key and EVM address - which starts with accepting the key.
func c17Tool(c *vc.Ctx, batch int) {
	r := world.NewRand(c.Seed, "c17tool", batch)
	for k := 0; k < c.Pick(24, 96); k++ {
		net := c17Nets[k%4]
		secret := world.Derive(c.Seed, "c17toolkey", batch*1000+k)
		priv, pub := btcec.PrivKeyFromBytes(secret)
		_ = priv
		comp, xonly, uncomp := pub.SerializeCompressed(), schnorr.SerializePubKey(pub), pub.SerializeUncompressed()
		badPrefix := append([]byte{0x05}, comp[1:]...)
		inputs := []struct {
			name, typ string
			raw       []byte
		}{
			{"compressed key as secp256k1", "secp256k1", comp}, {"x-only key as schnorr", "schnorr", xonly},
			{"x-only key as secp256k1", "secp256k1", xonly}, {"uncompressed key as secp256k1", "secp256k1", uncomp},
			{"compressed key as schnorr", "schnorr", comp}, {"bad prefix byte", "secp256k1", badPrefix}, {"short key", "secp256k1", comp[:31]}, {"empty key", "secp256k1", nil},
		}
		in := inputs[k%len(inputs)]
		evm := make([]byte, 20)
		r.Read(evm)
		cmd := modgen.Bitcoin()
		cmd.SetArgs([]string{"deposit-address", "--pubkey", hex.EncodeToString(in.raw), "--pubkey-type", in.typ, "--network", net.Name, "--eth-address", "0x" + hex.EncodeToString(evm)})
		cmd.SilenceUsage, cmd.SilenceErrors = true, true
		out, runErr := captureStdout(func() error { return cmd.Execute() })
		c.Eval(1)
		addr := ""
		if f := strings.Fields(out); runErr == nil && len(f) >= 3 && f[0] == "deposit" {
			addr = f[2]
		}
		c.Nontrivial("tool input=%s net=%s answered=%v", in.name, net.Name, addr != "")
		if addr == "" {
			if k%len(inputs) < 2 {
				c.Violation("the command-line tool refuses a well-formed relayer key", fmt.Sprintf("%s on %s: %v %q", in.name, net.Name, runErr, out), nil)
			}
			c.Count("tool_refusals", 1)
			continue
		}
		c.Count("tool_addresses_handed_out", 1)
		key := &relayertypes.PublicKey{Key: &relayertypes.PublicKey_Secp256K1{Secp256K1: in.raw}}
		if in.typ == "schnorr" {
			key = &relayertypes.PublicKey{Key: &relayertypes.PublicKey_Schnorr{Schnorr: in.raw}}
		}
		script, _, derr := scriptOfAddress(addr)
		switch {
		case derr != nil:
			c.Violation("the command-line tool hands out an undecodable deposit address", fmt.Sprintf("%s: %v", addr, derr), nil)
		case key.Validate() != nil:
			c.Violation("the command-line tool hands out a deposit address for a key deposit checking refuses", fmt.Sprintf("%s (%d bytes) on %s -> %s; deposit checking says: %v", in.name, len(in.raw), net.Name, addr, key.Validate()), nil)
		case bitcointypes.VerifyDespositScriptV0(key, evm, script) != nil:
			c.Violation("deposit verification refuses the address the command-line tool hands out", fmt.Sprintf("%s on %s -> %s", in.name, net.Name, addr), nil)
		}
	}
}

// captureStdout runs f with os.Stdout redirected into a pipe and returns what was printed.
func captureStdout(f func() error) (string, error) {
	old := os.Stdout
	rd, wr, err := os.Pipe()
	if err != nil {
		return "", f()
	}
	os.Stdout = wr
	done := make(chan string, 1)
	go func() {
		bz, _ := io.ReadAll(rd)
		done <- string(bz)
	}()
	ferr := f()
	wr.Close()
	os.Stdout = old
	return <-done, ferr
}

func evmClass(e []byte) string {
	switch {
	case bytes.Equal(e, make([]byte, 20)):
		return "all-zero"
	case bytes.Equal(e, bytes.Repeat([]byte{0xff}, 20)):
		return "all-ones"
	case bytes.Equal(e[:19], make([]byte, 19)):
		return "small"
	case bytes.Equal(e[1:], make([]byte, 19)):
		return "top-byte-only"
	}
	return "ordinary"
}

func init() {
	const pureBatches = 8
	vc.Register(&vc.Check{
		ID: "C17", Title: "Deposit addresses handed out are exactly what deposit checking accepts", Level: "exploration",
		Rule: "cases 0-7: round trips over random keys (both types), EVM addresses, magic prefixes and the 4 networks: address (and data output) from the builders, script rebuilt by hand from the bech32 program, verifier must accept it and refuse another key, the same secret under the other key type, another EVM address (one bit), another magic, every single-bit mutation and every opcode substitution (other witness versions, push lengths, OP_RETURN) of every script byte, truncations and the other version's outputs; v1 must be refused for schnorr keys. " +
			"cases 8-15: address strings with ground truth (P2PKH/P2SH/P2WPKH/P2WSH/P2TR on all 4 networks, bech32/bech32m mix-ups, checksum mutations, mixed case, short programs, pay-to-pubkey hex, junk) against DecodeBtcAddress: exact hand-built script or refusal; foreign = other bech32 prefix or other base58 version byte. " +
			"cases 16-23: the same through the application on each network and key type: Query/DepositAddress answers verified, withdrawal requests end pending or cancelled with exactly one refund. Non-trivial = every judged address; distinct = (kind, network, verdict).",
		Assume: []string{"btcutil's bech32/base58 codecs and btcec are correct (used to generate and to take apart address strings)", "all-uppercase bech32 strings are standard spellings (BIP173) and must decode; future witness versions are not judged"},
		Cases:  func(tier string) int { return 24 + map[string]int{"quick": 4, "thorough": 16}[tier] + 1 },
		Run: func(c *vc.Ctx, i int) {
			switch {
			case i < pureBatches:
				c17RoundTrip(c, i)
			case i < 2*pureBatches:
				c17Decode(c, i-pureBatches)
			case i < 3*pureBatches:
				c17App(c, i-2*pureBatches)
			case i == 24+map[string]int{"quick": 4, "thorough": 16}[c.Tier]:
				c17Tool(c, 0)
			default:
				// real deposits to addresses the node handed out (EVM addresses at the edges of the range among them)
				c17Deposits(c, i-3*pureBatches)
			}
		},
	})
}

var _ = btcutil.Hash160
