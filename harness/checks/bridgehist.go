package checks

import (
	"bytes"
	"crypto/sha256"
	"fmt"
	"math/big"

	"github.com/btcsuite/btcd/btcec/v2/schnorr"
	"github.com/btcsuite/btcd/btcutil"
	"github.com/btcsuite/btcd/txscript"
	"github.com/btcsuite/btcd/wire"
	sdk "github.com/cosmos/cosmos-sdk/types"
	"github.com/ethereum/go-ethereum/core/types/goattypes"
	bitcointypes "github.com/goatnetwork/goat/x/bitcoin/types"
	relayertypes "github.com/goatnetwork/goat/x/relayer/types"

	"verif/harness/world"
)

// Shared workload for the bridge properties (C02, C03, C05, C06, C20): a synthetic Bitcoin
// chain with ground truth, relayer messages (one voted message per block at most, so that the
// vote context is always known), and execution-layer bridge requests. It rides on lockHist,
// which owns the chain and may add locking activity to the same blocks.

// expectedDepositScripts builds, by hand, the output scripts a deposit for (key, evm) must have.
// v0: [script]; v1: [key-hash output, data output].
func expectedDepositScripts(key *relayertypes.PublicKey, evm, magic []byte, version uint32) [][]byte {
	switch k := key.Key.(type) {
	case *relayertypes.PublicKey_Secp256K1:
		if version == 0 {
			redeem := append([]byte{0x14}, evm...)
			redeem = append(redeem, 0x75, 0x21)
			redeem = append(redeem, k.Secp256K1...)
			redeem = append(redeem, 0xac)
			h := sha256.Sum256(redeem)
			return [][]byte{append([]byte{0x00, 0x20}, h[:]...)}
		}
		data := append([]byte{0x6a, 0x18}, append(append([]byte{}, magic...), evm...)...)
		return [][]byte{append([]byte{0x00, 0x14}, btcutil.Hash160(k.Secp256K1)...), data}
	case *relayertypes.PublicKey_Schnorr:
		if version != 0 {
			return nil
		}
		pub, err := schnorr.ParsePubKey(k.Schnorr)
		if err != nil {
			return nil
		}
		return [][]byte{append([]byte{0x51, 0x20}, schnorr.SerializePubKey(txscript.ComputeTaprootOutputKey(pub, evm))...)}
	}
	return nil
}

type depTruth struct {
	Block   *world.BtcBlock
	Index   int
	Raw     []byte
	Txid    []byte
	Vout    uint32
	Value   uint64
	Version uint32
	Key     *relayertypes.PublicKey
	Evm     []byte
	// bookkeeping
	Credited   bool
	Attempts   int
	CreditH    int64
	TaxRate    uint64
	TaxCap     uint64
	MinDeposit uint64
	ELSeen     int
	Malformed  bool // mined on purpose with a layout that must never be credited
	Layout     int
}

func (d *depTruth) id() string { return fmt.Sprintf("%x/%d", d.Txid, d.Vout) }

type relOp struct {
	msg   sdk.Msg
	desc  string
	judge func(code uint32, log string)
}

type bridgeHist struct {
	lh        *lockHist
	mutNext   int  // next deposit mutator (C03): mutators are used in turn
	quiet     bool // the bridge workload runs as traffic only (C07): its oracles belong to other checks and are not reported here
	bc        *world.BtcChain
	voted     map[uint64][]byte
	votedTip  uint64
	keys      []*relayertypes.PublicKey
	secrets   [][]byte
	curKey    *relayertypes.PublicKey
	magic     []byte
	deps      []*depTruth
	byID      map[string]*depTruth
	credited  map[string]int // (txid/vout) -> times credited according to accepted messages
	ops       []*relOp
	votedUsed bool
	group     *world.Group
	bridgeReq goattypes.BridgeRequests
	// observers
	onDeliver        func(st world.SysTx, blk *world.Block)
	afterBlock       func()
	wd               *wdState
	onHashes         func(start uint64, hashes [][]byte)
	onBridgeReqs     func(*goattypes.BridgeRequests)
	extraLocking     func(*blockOps)
	extraMembers     func() []*world.Member // relayer members beyond the genesis ones (joined candidates)
	acceptedDeposits []*depTruth            // credited by accepted batches, in order, since the last reset
	evmCtr           int
	malformed        []*depTruth
	depositBurst     bool // mine and submit more deposits at once than one block may hand over
}

func newBridgeHist(lh *lockHist) *bridgeHist {
	b := &bridgeHist{lh: lh, bc: world.NewBtcChain(), voted: map[uint64][]byte{}, byID: map[string]*depTruth{}, credited: map[string]int{}, magic: []byte("GTT0")}
	b.keys = []*relayertypes.PublicKey{lh.ch.W.BtcKey}
	b.secrets = [][]byte{lh.ch.W.BtcPriv}
	b.curKey = lh.ch.W.BtcKey
	b.mutNext = int(lh.c.Seed%7)*5 + lh.c.Case*3
	return b
}

func (b *bridgeHist) viol(sig, detail string) {
	if b.quiet {
		b.lh.c.Count("bridge_findings_left_to_their_own_checks", 1)
		return
	}
	b.lh.c.Violation(sig, fmt.Sprintf("height %d: %s", b.lh.ch.Height, detail), b.lh.replay())
}

func (b *bridgeHist) params() bitcointypes.Params { return b.lh.post.Bitcoin.Params }

func (b *bridgeHist) registered(k *relayertypes.PublicKey) bool {
	for _, x := range b.keys {
		if bytes.Equal(relayertypes.EncodePublicKey(x), relayertypes.EncodePublicKey(k)) {
			return true
		}
	}
	return false
}

func (b *bridgeHist) newEvm() []byte {
	b.evmCtr++
	return world.Derive(b.lh.c.Seed, "evm/"+b.lh.cfg.Label, b.evmCtr)[:20]
}

// depositOutputs returns the outputs of a deposit transaction and the index of the deposit output.
func (b *bridgeHist) depositOutputs(key *relayertypes.PublicKey, evm []byte, version uint32, value uint64, voutAt int) ([]*wire.TxOut, uint32) {
	sc := expectedDepositScripts(key, evm, b.magic, version)
	if sc == nil {
		return nil, 0
	}
	// the other outputs of a deposit transaction (change, other payments) are worth more than the minimum deposit half of
	// the time: claiming one of them instead of the designated output must fail on the script, not on the amount
	side := int64(777)
	if b.lh.r.Intn(2) == 0 {
		side = int64(300_000 + b.lh.r.Intn(1000))
	}
	if version == 1 {
		return []*wire.TxOut{wire.NewTxOut(int64(value), sc[0]), wire.NewTxOut(0, sc[1]), wire.NewTxOut(side, append([]byte{0, 20}, make([]byte, 20)...))}, 0
	}
	outs := []*wire.TxOut{}
	for i := 0; i < voutAt; i++ {
		outs = append(outs, wire.NewTxOut(side+int64(i), append([]byte{0, 20}, make([]byte, 20)...)))
	}
	outs = append(outs, wire.NewTxOut(int64(value), sc[0]))
	return outs, uint32(voutAt)
}

func (b *bridgeHist) depositValue() uint64 {
	p := b.params()
	r := b.lh.r
	min := p.MinDepositAmount
	choices := []uint64{min, min + 1, 10_000, 10_001, 20_000, 123_456, 1_000_000, 100_000_000, 1 << 40}
	if min > 0 {
		choices = append(choices, min-1)
	}
	if p.DepositTaxRate > 0 && p.MaxDepositTax > 0 {
		edge := p.MaxDepositTax * 10_000 / p.DepositTaxRate
		choices = append(choices, edge, edge+10_000, edge-1)
	}
	if r.Intn(30) == 0 {
		choices = append(choices, 1<<62)
	}
	return choices[r.Intn(len(choices))]
}

// mineDeposits mines one Bitcoin block with nDep deposit transactions (and fillers); the coinbase
// itself may pay a deposit script.
func (b *bridgeHist) mineDeposits(nDep int, coinbaseDeposit bool) *world.BtcBlock {
	r := b.lh.r
	type pend struct {
		idx  int
		d    *depTruth
		outs []*wire.TxOut
	}
	var txs []*wire.MsgTx
	var pends []pend
	h := b.bc.Tip + 1
	mk := func(coinbase bool) (*wire.MsgTx, *depTruth) {
		key := b.keys[r.Intn(len(b.keys))]
		version := uint32(r.Intn(2))
		if _, isSchnorr := key.Key.(*relayertypes.PublicKey_Schnorr); isSchnorr {
			version = 0
		}
		evm := b.newEvm()
		value := b.depositValue()
		outs, vout := b.depositOutputs(key, evm, version, value, r.Intn(2))
		var tx *wire.MsgTx
		if coinbase {
			tx = b.bc.CoinbaseTx(h, outs...)
		} else {
			tx = b.bc.FillerTx(outs...)
		}
		return tx, &depTruth{Vout: vout, Value: value, Version: version, Key: key, Evm: evm}
	}
	if coinbaseDeposit {
		tx, d := mk(true)
		txs = append(txs, tx)
		pends = append(pends, pend{0, d, nil})
	} else {
		txs = append(txs, b.bc.CoinbaseTx(h))
	}
	for i := 0; i < nDep; i++ {
		for f := r.Intn(3); f > 0; f-- {
			txs = append(txs, b.bc.FillerTx())
		}
		tx, d := mk(false)
		pends = append(pends, pend{len(txs), d, nil})
		if d.Version == 0 && r.Intn(4) == 0 {
			// one Bitcoin transaction carrying two deposits (two outputs, each to its own deposit script): the unit of
			// "credited at most once" is (transaction id, output index), not the transaction
			key2 := b.keys[r.Intn(len(b.keys))]
			evm2 := b.newEvm()
			value2 := b.depositValue()
			outs2, _ := b.depositOutputs(key2, evm2, 0, value2, 0)
			tx.AddTxOut(outs2[len(outs2)-1])
			d2 := &depTruth{Vout: uint32(len(tx.TxOut) - 1), Value: value2, Version: 0, Key: key2, Evm: evm2}
			pends = append(pends, pend{len(txs), d2, nil})
			b.lh.c.Count("bitcoin_transactions_with_two_deposits", 1)
		}
		txs = append(txs, tx)
	}
	for f := r.Intn(3); f > 0 && !(coinbaseDeposit && nDep == 0); f-- { // (coinbase deposit, 0 others) = a block of one transaction
		txs = append(txs, b.bc.FillerTx())
	}
	blk := b.bc.Mine(txs)
	for _, p := range pends {
		p.d.Block, p.d.Index, p.d.Raw, p.d.Txid = blk, p.idx, blk.Raw[p.idx], blk.Txids[p.idx]
		b.deps = append(b.deps, p.d)
		b.byID[p.d.id()] = p.d
	}
	return blk
}

// genuineDeposit renders the truthful message item for a deposit.
func (b *bridgeHist) genuineDeposit(d *depTruth) *bitcointypes.Deposit {
	return &bitcointypes.Deposit{Version: d.Version, BlockNumber: d.Block.Height, TxIndex: uint32(d.Index), NoWitnessTx: d.Raw, OutputIndex: d.Vout,
		IntermediateProof: d.Block.Tree.Proof(d.Index), EvmAddress: d.Evm, RelayerPubkey: d.Key}
}

// legit is the ground-truth oracle of C03 for one credited deposit item. "" = legitimate.
func (b *bridgeHist) legit(d *bitcointypes.Deposit, headers map[uint64][]byte, creditedInBatch map[string]bool) (string, *depTruth) {
	blk := b.bc.Blocks[d.BlockNumber]
	if blk == nil {
		return "no such Bitcoin block", nil
	}
	if vh, ok := b.voted[d.BlockNumber]; !ok || !bytes.Equal(vh, blk.Hash) {
		return "the block hash of that height was never voted", nil
	}
	if !bytes.Equal(headers[d.BlockNumber], blk.Header) {
		return "the submitted header is not the header of the voted block", nil
	}
	txid := world.DSha(d.NoWitnessTx)
	idx := -1
	for i, t := range blk.Txids {
		if bytes.Equal(t, txid) {
			idx = i
		}
	}
	if idx < 0 {
		return "the transaction is not in the voted block", nil
	}
	var tx wire.MsgTx
	if err := tx.DeserializeNoWitness(bytes.NewReader(d.NoWitnessTx)); err != nil {
		return "undecodable transaction", nil
	}
	if int(d.OutputIndex) >= len(tx.TxOut) {
		return "no such output", nil
	}
	out := tx.TxOut[d.OutputIndex]
	p := b.params()
	if uint64(out.Value) < p.MinDepositAmount {
		return fmt.Sprintf("output value %d below the minimum deposit %d", out.Value, p.MinDepositAmount), nil
	}
	if d.RelayerPubkey == nil || !b.registered(d.RelayerPubkey) {
		return "the relayer key is not registered", nil
	}
	sc := expectedDepositScripts(d.RelayerPubkey, d.EvmAddress, p.DepositMagicPrefix, d.Version)
	if sc == nil {
		return "unsupported key type / version combination", nil
	}
	if !bytes.Equal(out.PkScript, sc[0]) {
		return "the output script does not commit to that relayer key and EVM address", nil
	}
	if d.Version == 1 {
		if d.OutputIndex != 0 || len(tx.TxOut) < 2 || !bytes.Equal(tx.TxOut[1].PkScript, sc[1]) {
			return "the v1 data output is missing, misplaced or for another address/magic", nil
		}
	}
	if idx == 0 && b.votedTip < d.BlockNumber+100 {
		return fmt.Sprintf("first (coinbase) transaction of block %d with only %d voted blocks above it (claimed position %d)", d.BlockNumber, b.votedTip-d.BlockNumber, d.TxIndex), nil
	}
	key := fmt.Sprintf("%x/%d", txid, d.OutputIndex)
	if b.credited[key] > 0 || creditedInBatch[key] {
		return "this (txid, output) was credited before", nil
	}
	return "", b.byID[key]
}

func taxOf(value, rate, cap uint64) uint64 {
	if rate == 0 || value <= 10_000 {
		return 0
	}
	t := new(big.Int).Mul(new(big.Int).SetUint64(value/10_000), new(big.Int).SetUint64(rate))
	if cap > 0 && t.Cmp(new(big.Int).SetUint64(cap)) > 0 {
		return cap
	}
	if !t.IsUint64() {
		return ^uint64(0)
	}
	return t.Uint64()
}

// depositsOp builds a MsgNewDeposits from items and attaches the C03 oracle.
func (b *bridgeHist) depositsOp(items []*bitcointypes.Deposit, headers []*bitcointypes.BlockHeader, desc string, allGenuine bool) *relOp {
	msg := &bitcointypes.MsgNewDeposits{Proposer: b.group.Proposer.AddrStr, BlockHeaders: headers, Deposits: items}
	hm := map[uint64][]byte{}
	for _, h := range headers {
		if h != nil {
			hm[h.Height] = h.Raw
		}
	}
	c := b.lh.c
	return &relOp{msg: msg, desc: "deposits[" + desc + "]", judge: func(code uint32, log string) {
		c.Eval(1)
		c.Count("deposit_batches_judged", 1)
		c.Nontrivial("deposits kind=%s n=%d accepted=%v", desc, len(items), code == 0)
		if code != 0 {
			if allGenuine {
				c.Count("genuine_deposit_batches_rejected", 1)
				b.lh.logf("genuine deposit batch rejected: %s", log)
			} else {
				c.Count("hostile_deposit_batches_rejected", 1)
			}
			return
		}
		if allGenuine {
			c.Count("genuine_deposit_batches_accepted", 1)
		}
		inBatch := map[string]bool{}
		for _, d := range items {
			why, truth := b.legit(d, hm, inBatch)
			key := fmt.Sprintf("%x/%d", world.DSha(d.NoWitnessTx), d.OutputIndex)
			if why != "" {
				if truth == nil {
					truth = b.byID[key] // keep the books straight so that the consequences are not reported again
				}
				b.viol("illegitimate deposit credited: "+sigClass(why), fmt.Sprintf("batch %q: %s (block %d, claimed position %d, output %d, version %d)", desc, why, d.BlockNumber, d.TxIndex, d.OutputIndex, d.Version))
			}
			inBatch[key] = true
			b.credited[key]++
			if truth != nil {
				truth.Credited = true
				truth.CreditH = b.lh.blk.Height
				p := b.params()
				truth.TaxRate, truth.TaxCap, truth.MinDeposit = p.DepositTaxRate, p.MaxDepositTax, p.MinDepositAmount
				b.acceptedDeposits = append(b.acceptedDeposits, truth)
			}
			c.Count("deposits_credited", 1)
		}
	}}
}

func sigClass(why string) string {
	// strip numbers so that the signature is stable
	out := []rune{}
	for _, r := range why {
		if r >= '0' && r <= '9' {
			continue
		}
		out = append(out, r)
	}
	return string(out)
}

func hdrsFor(items []*depTruth) []*bitcointypes.BlockHeader {
	seen := map[uint64]bool{}
	var hs []*bitcointypes.BlockHeader
	for _, d := range items {
		if !seen[d.Block.Height] {
			seen[d.Block.Height] = true
			hs = append(hs, &bitcointypes.BlockHeader{Height: d.Block.Height, Raw: d.Block.Header})
		}
	}
	return hs
}

// hashesOp votes the next unvoted heights (or a hostile variant).
func (b *bridgeHist) hashesOp(variant string) *relOp {
	if b.votedUsed {
		return nil
	}
	start := b.votedTip + 1
	var hashes [][]byte
	for h := start; h <= b.bc.Tip && len(hashes) < 16; h++ {
		hashes = append(hashes, b.bc.Blocks[h].Hash)
	}
	expectOK := len(hashes) > 0
	switch variant {
	case "start-at-tip":
		if b.votedTip == 0 {
			return nil
		}
		start = b.votedTip
		hashes = [][]byte{world.Derive(1, "rewrite", int(b.votedTip))}
		expectOK = false
	case "start-after-gap":
		start = b.votedTip + 2
		if len(hashes) == 0 {
			hashes = [][]byte{world.Derive(1, "gap", int(b.votedTip))}
		}
		expectOK = false
	case "rewrite-old":
		if b.votedTip < 3 {
			return nil
		}
		start = 1 + uint64(b.lh.r.Intn(int(b.votedTip)-1))
		hashes = [][]byte{world.Derive(1, "old", int(start))}
		expectOK = false
	case "empty": // passes validation: a voted proposal that changes no height
		hashes = nil
		expectOK = true
	case "seventeen":
		for len(hashes) < 17 {
			hashes = append(hashes, world.Derive(1, "pad", len(hashes)))
		}
		expectOK = false
	}
	if len(hashes) == 0 && variant != "empty" {
		return nil
	}
	msg := &bitcointypes.MsgNewBlockHashes{Proposer: b.group.Proposer.AddrStr, StartBlockNumber: start, BlockHash: hashes}
	v, err := b.lh.ch.QuorumVote(b.group, msg)
	if err != nil {
		return nil
	}
	msg.Vote = v
	b.votedUsed = true
	c := b.lh.c
	tipBefore := b.votedTip
	return &relOp{msg: msg, desc: "hashes[" + variant + "]", judge: func(code uint32, log string) {
		c.Eval(1)
		c.Nontrivial("hashes variant=%s n=%d accepted=%v", variant, len(hashes), code == 0)
		if code == 0 {
			if start != tipBefore+1 {
				b.viol("block hashes accepted that do not start right above the tip", fmt.Sprintf("tip %d, batch starts at %d (%s)", tipBefore, start, variant))
			}
			if len(hashes) > 16 {
				b.viol("more than 16 block hashes accepted in one batch", fmt.Sprint(len(hashes)))
			}
			for i, hh := range hashes {
				b.voted[start+uint64(i)] = hh
			}
			if len(hashes) > 0 && start+uint64(len(hashes))-1 > b.votedTip {
				b.votedTip = start + uint64(len(hashes)) - 1
			}
			c.Count("hash_batches_accepted", 1)
			c.Count("heights_voted", len(hashes))
			if b.onHashes != nil {
				b.onHashes(start, hashes)
			}
		} else {
			if expectOK {
				c.Count("genuine_hash_batches_rejected", 1)
				b.lh.logf("genuine hash batch rejected: %s", log)
			} else {
				c.Count("hostile_hash_batches_rejected", 1)
			}
		}
	}}
}

// pubkeyOp registers a new relayer key (voted).
func (b *bridgeHist) pubkeyOp() *relOp {
	if b.votedUsed {
		return nil
	}
	secret := world.Derive(b.lh.c.Seed, "newrelkey/"+b.lh.cfg.Label, len(b.keys))
	key := world.BtcPubKey(secret, b.lh.r.Intn(2) == 0)
	msg := &bitcointypes.MsgNewPubkey{Proposer: b.group.Proposer.AddrStr, Pubkey: key}
	v, err := b.lh.ch.QuorumVote(b.group, msg)
	if err != nil {
		return nil
	}
	msg.Vote = v
	b.votedUsed = true
	return &relOp{msg: msg, desc: "new-pubkey", judge: func(code uint32, log string) {
		if code == 0 {
			b.keys = append(b.keys, key)
			b.secrets = append(b.secrets, secret)
			b.curKey = key
			b.lh.c.Count("relayer_keys_registered", 1)
		}
	}}
}

// runBlock signs the queued relayer operations, executes one block and judges the results.
func (b *bridgeHist) runBlock() bool {
	lh := b.lh
	ops := b.ops
	b.ops = nil
	b.votedUsed = false
	if len(ops) > 14 {
		ops = ops[:14]
	}
	if len(ops) > 0 && b.group != nil {
		num, seq, ok := lh.ch.Account(b.group.Proposer.Addr)
		if !ok {
			lh.c.Inconclusive("no account for the relayer proposer")
			return false
		}
		for i, op := range ops {
			raw, err := lh.ch.W.SignTx(world.TxSpec{Msgs: []sdk.Msg{op.msg}, Priv: b.group.Proposer.Tx, AccNum: num, Seq: seq + uint64(i)})
			if err != nil {
				lh.c.Inconclusive("sign %s: %v", op.desc, err)
				return false
			}
			lh.ch.Inject(raw)
			lh.logf("relayer tx %d: %s", i, op.desc)
		}
	}
	req := b.bridgeReq
	b.bridgeReq = goattypes.BridgeRequests{}
	lh.extra = func(o *blockOps) {
		o.Reqs.Bridge = req
		if b.extraLocking != nil {
			b.extraLocking(o)
		}
	}
	if !lh.step() {
		return false
	}
	lh.extra = nil
	blk := lh.blk
	if len(blk.Resp.TxResults) != len(ops)+1 {
		lh.c.Inconclusive("expected %d tx results, got %d", len(ops)+1, len(blk.Resp.TxResults))
		return false
	}
	// bridge requests of a successful block message take effect before the relayer transactions run
	if blk.BlockOK && b.onBridgeReqs != nil {
		b.onBridgeReqs(&req)
	}
	for i, op := range ops {
		res := blk.Resp.TxResults[i+1]
		if res.Code != 0 {
			lh.logf("  tx %d (%s) failed: %s", i, op.desc, failClass(res.Log))
		}
		if op.judge != nil {
			op.judge(res.Code, res.Log)
		}
	}
	if blk.BlockOK && blk.Payload != nil && b.onDeliver != nil {
		for i := 0; i < nsys(blk.Payload); i++ {
			if st, err := world.DecodeSysTx(blk.Payload.Transactions[i]); err == nil {
				b.onDeliver(st, blk)
			}
		}
	}
	if b.afterBlock != nil {
		b.afterBlock()
	}
	return true
}

// refreshGroup reads the relayer group for the next block.
func (b *bridgeHist) refreshGroup() bool {
	pools := [][]*world.Member{b.lh.ch.W.Members}
	if b.extraMembers != nil {
		pools = append(pools, b.extraMembers())
	}
	g, err := b.lh.ch.Group(pools...)
	if err != nil {
		b.lh.c.Inconclusive("relayer group: %v", err)
		return false
	}
	b.group = g
	return true
}

// wdBurst is a directed scenario shared by C06 and the combined histories: n withdrawals are requested in one block,
// processed as one batch, the paying transaction is mined and its block voted, and the batch is finalised - in a block
// that also asks for `refunds` withdrawals to undecodable addresses. More than 8 'paid' notices are then due at once,
// next to 'refund' notices that compete for the same per-block cap of 8.
type wdBurst struct {
	at, n, refunds int
	ids            []uint64
	proc           *procM
	final          bool
}

func (u *wdBurst) step(b *bridgeHist, wm *wdMon, blk int, seed uint64, idx int) {
	lh := b.lh
	switch d := blk - u.at; {
	case d == 0:
		u.ids = nil
		for k := 0; k < u.n; k++ {
			addr, _ := world.P2WPKH(world.Derive(seed, "c06burst", int(wm.next)*7+idx)[:20], regtest)
			b.bridgeReq.Withdraws = append(b.bridgeReq.Withdraws, &goattypes.WithdrawalRequest{Id: wm.next, Amount: 60_000, TxPrice: 40, Address: addr})
			u.ids = append(u.ids, wm.next)
			wm.next++
		}
		lh.logf("EL: burst of %d withdrawals", u.n)
	case d == 1:
		if op := wm.processOp(u.ids, ""); op != nil {
			b.ops = append(b.ops, op)
		}
	case d == 2:
		for _, p := range wm.procs {
			if !p.Done && len(p.Ids) == len(u.ids) && len(u.ids) > 0 && p.Ids[0] == u.ids[0] {
				u.proc = p
				cd := p.Cands[0]
				var tx wireMsgTx
				if err := tx.DeserializeNoWitness(bytes.NewReader(cd.Raw)); err == nil {
					blkb := b.bc.Mine([]*wireMsgTx{b.bc.CoinbaseTx(b.bc.Tip + 1), b.bc.FillerTx(), &tx})
					cd.Height, cd.Index = blkb.Height, 2
				}
			}
		}
		if op := b.hashesOp("next"); op != nil {
			b.ops = append(b.ops, op)
		}
	case d >= 3 && d <= 12:
		if u.proc != nil && !u.proc.Done && u.proc.Cands[0].Height != 0 {
			if u.proc.Cands[0].Height > b.votedTip {
				if op := b.hashesOp("next"); op != nil {
					b.ops = append(b.ops, op)
				}
			} else if !u.final {
				if op := wm.finalizeOp(u.proc, u.proc.Cands[0], ""); op != nil {
					b.ops = append(b.ops, op)
					u.final = true
					for k := 0; k < u.refunds; k++ {
						b.bridgeReq.Withdraws = append(b.bridgeReq.Withdraws, &goattypes.WithdrawalRequest{Id: wm.next, Amount: 40_000, TxPrice: 3, Address: fmt.Sprintf("junk-burst-%d", wm.next)})
						wm.next++
					}
					lh.logf("finalising the %d-withdrawal batch together with %d refunds", u.n, u.refunds)
					lh.c.Count("withdrawal_bursts_finalised", 1)
				}
			}
		}
	}
}
