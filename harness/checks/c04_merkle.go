package checks

import (
	"bytes"
	"crypto/sha256"
	"fmt"
	"os"
	"sync"
	"sync/atomic"

	goatcrypto "github.com/goatnetwork/goat/pkg/crypto"

	btctypes "github.com/goatnetwork/goat/x/bitcoin/types"

	"verif/harness/vc"
	"verif/harness/world"
)

// refMerkle is the reference written from the statement of C04: accept exactly when the sizes
// are right, the position is smaller than 2^(path length) and folding the leaf up the path,
// left/right chosen by the bits of the position, gives the root.
func refMerkle(leaf, root, path []byte, pos uint32) bool {
	if len(leaf) != 32 || len(root) != 32 || len(path)%32 != 0 {
		return false
	}
	depth := len(path) / 32
	if depth < 32 && uint64(pos) >= uint64(1)<<uint(depth) {
		return false
	}
	cur := append([]byte(nil), leaf...)
	p := pos
	for i := 0; i < depth; i++ {
		sib := path[i*32 : (i+1)*32]
		var cat []byte
		if p&1 == 0 {
			cat = append(append(cat, cur...), sib...)
		} else {
			cat = append(append(cat, sib...), cur...)
		}
		h1 := sha256.Sum256(cat)
		h2 := sha256.Sum256(h1[:])
		cur = h2[:]
		p >>= 1
	}
	return bytes.Equal(cur, root)
}

var c04Sizes = func() []int {
	var s []int
	for i := 1; i <= 33; i++ {
		s = append(s, i)
	}
	return append(s, 63, 64, 65)
}()

type c04Sample struct {
	Size    int    `json:"tree_size"`
	Leaf    int    `json:"leaf"`
	Claimed uint32 `json:"claimed_position"`
	Variant string `json:"path_variant"`
	Impl    bool   `json:"impl"`
	Ref     bool   `json:"ref"`
}

func c04Judge(c *vc.Ctx, size, leafIdx int, variant string, leaf, root, path []byte, pos uint32, genuinePos uint32, depth int) {
	impl := btctypes.VerifyMerkelProof(leaf, root, path, pos)
	ref := refMerkle(leaf, root, path, pos)
	c.Eval(1)
	nontrivial := variant != "genuine" || pos != genuinePos
	if nontrivial {
		pc := "in-range"
		if depth < 32 && uint64(pos) >= uint64(1)<<uint(depth) {
			pc = "beyond-2^depth"
		}
		c.Nontrivial("size=%d variant=%s pos=%s accepted=%v", size, variant, pc, impl)
	}
	if impl {
		c.Count("accepted", 1)
	} else {
		c.Count("rejected", 1)
	}
	if impl == ref {
		return
	}
	s := c04Sample{size, leafIdx, pos, variant, impl, ref}
	rep := map[string]any{"leaf": fmt.Sprintf("%x", leaf), "root": fmt.Sprintf("%x", root), "path": fmt.Sprintf("%x", path), "pos": pos, "case": s}
	// would the reference accept if only the position bound were dropped?
	d := len(path) / 32
	boundOnly := impl && !ref && d < 32 && refMerkle(leaf, root, path, pos&(uint32(1)<<uint(d)-1))
	switch {
	case boundOnly:
		c.Violation("accepts a position >= 2^depth that aliases a real position", fmt.Sprintf("%+v", s), rep)
	case impl && !ref:
		c.Violation("accepts an invalid proof ("+variant+")", fmt.Sprintf("%+v", s), rep)
	default:
		c.Violation("rejects a valid proof ("+variant+")", fmt.Sprintf("%+v", s), rep)
	}
}

func c04Leaves(seed uint64, size int) [][]byte {
	var l [][]byte
	for i := 0; i < size; i++ {
		l = append(l, world.Derive(seed, fmt.Sprintf("c04leaf/%d", size), i))
	}
	return l
}

// c04Enumerate covers one tree size completely (within the enumerated axes).
func c04Enumerate(c *vc.Ctx, size int) {
	leaves := c04Leaves(c.Seed, size)
	tree := world.NewMerkleTree(leaves)
	root := tree.Root()
	depth := tree.Depth()
	span := uint64(4) << uint(depth)
	for li := 0; li < size; li++ {
		leaf := leaves[li]
		path := tree.Proof(li)
		gp := uint32(li)
		// every claimed position in [0, 4*2^depth)
		for p := uint64(0); p < span; p++ {
			c04Judge(c, size, li, "genuine", leaf, root, path, uint32(p), gp, depth)
		}
		// aliases li + j*2^depth for j at powers of two, and the extremes
		for sh := depth + 2; sh < 32; sh++ {
			c04Judge(c, size, li, "genuine", leaf, root, path, gp+uint32(1)<<uint(sh), gp, depth)
		}
		for _, p := range []uint32{1 << 31, 0xffffffff, 0xfffffffe, gp | 1<<31} {
			c04Judge(c, size, li, "genuine", leaf, root, path, p, gp, depth)
		}
		// truncated paths (the leaf then only proves an inner node relation)
		for cut := 1; cut <= depth; cut++ {
			tp := path[:len(path)-32*cut]
			for _, p := range []uint32{gp, gp >> uint(cut), gp & (1<<uint(depth-cut) - 1), 0} {
				c04Judge(c, size, li, fmt.Sprintf("truncated-%d", cut), leaf, root, tp, p, gp, depth-cut)
			}
		}
		// extended paths
		zero := make([]byte, 32)
		for _, ext := range [][]byte{zero, root, leaf} {
			ep := append(append([]byte(nil), path...), ext...)
			for _, p := range []uint32{gp, gp + uint32(1)<<uint(depth), 0} {
				c04Judge(c, size, li, "extended-1", leaf, root, ep, p, gp, depth+1)
			}
		}
		ep2 := append(append(append([]byte(nil), path...), zero...), zero...)
		c04Judge(c, size, li, "extended-2", leaf, root, ep2, gp, gp, depth+2)
		// two nodes swapped
		for a := 0; a+1 < depth; a++ {
			sp := append([]byte(nil), path...)
			copy(sp[a*32:], path[(a+1)*32:(a+2)*32])
			copy(sp[(a+1)*32:], path[a*32:(a+1)*32])
			c04Judge(c, size, li, "swapped", leaf, root, sp, gp, gp, depth)
		}
		// one bit flipped per node
		for a := 0; a < depth; a++ {
			fp := append([]byte(nil), path...)
			fp[a*32+(li+a)%32] ^= 1 << uint((li+a)%8)
			c04Judge(c, size, li, "bitflip", leaf, root, fp, gp, gp, depth)
		}
		// ragged path lengths
		for _, d := range []int{1, 7, 31} {
			if len(path) >= d {
				c04Judge(c, size, li, "ragged-short", leaf, root, path[:len(path)-d], gp, gp, depth)
			}
			c04Judge(c, size, li, "ragged-long", leaf, root, append(append([]byte(nil), path...), make([]byte, d)...), gp, gp, depth)
		}
		// wrong sizes of leaf and root
		for _, n := range []int{0, 31, 33} {
			bad := make([]byte, n)
			copy(bad, leaf)
			c04Judge(c, size, li, "leaf-size", bad, root, path, gp, gp, depth)
			badr := make([]byte, n)
			copy(badr, root)
			c04Judge(c, size, li, "root-size", leaf, badr, path, gp, gp, depth)
		}
		// empty path: only the root itself is proven
		c04Judge(c, size, li, "empty-path", leaf, root, nil, gp, gp, 0)
		c04Judge(c, size, li, "empty-path", root, root, nil, 0, gp, 0)
		c04Judge(c, size, li, "empty-path", root, root, nil, 1, gp, 0)
		// another leaf under this leaf's path
		c04Judge(c, size, li, "wrong-leaf", leaves[(li+1)%size], root, path, gp, gp, depth)
	}
	c.Sample(map[string]any{"tree_size": size, "depth": depth, "leaves": size, "claimed_positions_per_leaf": span, "root": fmt.Sprintf("%x", root)})
	c.Count("tree_sizes_enumerated", 1)
	c.Exhaustive()
}

func c04Random(c *vc.Ctx, batch, n int) {
	r := world.NewRand(c.Seed, "c04rand", batch)
	for k := 0; k < n; k++ {
		size := 1 + r.Intn(4096)
		if r.Intn(3) == 0 {
			size = 1 + r.Intn(40)
		}
		// build only the one path we need: a random leaf set is expensive for 4096, so sample small trees fully
		if size > 300 {
			size = 1 + size%300
		}
		leaves := make([][]byte, size)
		for i := range leaves {
			b := make([]byte, 32)
			r.Read(b)
			leaves[i] = b
		}
		tree := world.NewMerkleTree(leaves)
		for rep := 0; rep < 24; rep++ {
			li := r.Intn(size)
			path := append([]byte(nil), tree.Proof(li)...)
			pos := uint32(li)
			variant := "genuine"
			switch r.Intn(6) {
			case 0:
				pos = r.Uint32()
			case 1:
				pos = uint32(li) + uint32(r.Intn(8))<<uint(tree.Depth())
			case 2:
				if len(path) > 0 {
					path[r.Intn(len(path))] ^= byte(1 << uint(r.Intn(8)))
					variant = "bitflip"
				}
			case 3:
				if len(path) >= 32 {
					path = path[:len(path)-32*(1+r.Intn(len(path)/32))]
					variant = "truncated"
					pos = uint32(li) >> uint(r.Intn(4))
				}
			case 4:
				path = append(path, leaves[r.Intn(size)]...)
				variant = "extended"
				if r.Intn(2) == 0 {
					pos |= 1 << uint(tree.Depth())
				}
			}
			c04Judge(c, size, li, "rand-"+variant, leaves[li], tree.Root(), path, pos, uint32(li), len(path)/32)
		}
	}
	c.Count("random_trees", n)
}

// c04Deep judges synthetic paths of every length around the width of the position (a path need not come from a block:
// the function is called with whatever a message carries): for depth d and a 32-bit position p the root is the fold of a
// random leaf up d random siblings steered by the bits of p (bits beyond the 32nd are zero).
func c04Deep(c *vc.Ctx, batch int) {
	r := world.NewRand(c.Seed, "c04deep", batch)
	fold := func(leaf, path []byte, pos uint32) []byte {
		cur := append([]byte(nil), leaf...)
		p := pos
		for i := 0; i < len(path)/32; i++ {
			sib := path[i*32 : (i+1)*32]
			var cat []byte
			if p&1 == 0 {
				cat = append(append(cat, cur...), sib...)
			} else {
				cat = append(append(cat, sib...), cur...)
			}
			h1 := sha256.Sum256(cat)
			h2 := sha256.Sum256(h1[:])
			cur = h2[:]
			p >>= 1
		}
		return cur
	}
	for _, d := range []int{13, 20, 29, 30, 31, 32, 33, 34, 40, 63, 64, 65, 100} {
		for k := 0; k < c.Pick(6, 40); k++ {
			leaf := make([]byte, 32)
			path := make([]byte, 32*d)
			r.Read(leaf)
			r.Read(path)
			var positions []uint32
			positions = append(positions, 0, 1, 1<<31, ^uint32(0), r.Uint32())
			if d < 32 {
				positions = append(positions, uint32(1)<<uint(d)-1, uint32(r.Int63n(int64(1)<<uint(d))))
			}
			for _, p := range positions {
				inRange := d >= 32 || uint64(p) < uint64(1)<<uint(d)
				q := p
				if !inRange {
					q = p & (uint32(1)<<uint(d) - 1) // what an alias folds like
				}
				root := fold(leaf, path, q)
				c04Judge(c, -d, 0, "deep-genuine-fold", leaf, root, path, p, q, d)
				// one sibling changed: no longer the fold
				bad := append([]byte(nil), path...)
				bad[r.Intn(len(bad))] ^= 0x40
				c04Judge(c, -d, 0, "deep-sibling-changed", leaf, root, bad, p, q, d)
				// the other child order at one level inside the position's width
				if d >= 1 {
					bit := uint(r.Intn(min(d, 32)))
					c04Judge(c, -d, 0, "deep-position-bit-flipped", leaf, root, path, p^(1<<bit), q, d)
				}
			}
			c.Count("deep_paths", 1)
		}
	}
}

// c04Concurrent: the verdict may depend on (leaf, position, path, root) only - also when several verifications run at
// the same time, as they do in a node (block execution on the consensus connection next to simulations and queries).
// Genuine proofs, foreign leaves under genuine paths (same position: they share every node above the leaf level with
// the genuine proof) and sibling-changed paths are verified by many goroutines at once, next to goroutines that
// double-hash transactions the way deposit checking does; every verdict and digest is compared with the sequentially
// computed reference. The race build reports unsynchronised shared memory in the same workload.
func c04Concurrent(c *vc.Ctx, batch int) {
	size := []int{2, 5, 16, 33, 64, 127}[batch%6]
	leaves := c04Leaves(c.Seed+uint64(977*batch), size)
	tree := world.NewMerkleTree(leaves)
	root, depth := tree.Root(), tree.Depth()
	type job struct {
		variant    string
		leaf, path []byte
		pos        uint32
		want       bool
	}
	var jobs []job
	for li := 0; li < size; li++ {
		path := tree.Proof(li)
		foreign := world.Derive(c.Seed, fmt.Sprintf("c04foreign/%d", batch), li)
		jobs = append(jobs, job{"genuine", leaves[li], path, uint32(li), true})
		jobs = append(jobs, job{"foreign-leaf-at-a-real-position", foreign, path, uint32(li), false})
		jobs = append(jobs, job{"wrong-leaf", leaves[(li+1)%size], path, uint32(li), size == 1})
		if depth > 0 {
			jobs = append(jobs, job{"sibling-position", leaves[li], path, uint32(li) ^ 1, false})
			fp := append([]byte(nil), path...)
			fp[((li%depth)*32)+li%32] ^= 0x10
			jobs = append(jobs, job{"bitflip", leaves[li], fp, uint32(li), false})
		}
	}
	for i := range jobs {
		jobs[i].want = refMerkle(jobs[i].leaf, root, jobs[i].path, jobs[i].pos)
	}
	var blobs, digests [][]byte
	for i := 0; i < 64; i++ {
		b := bytes.Repeat(world.Derive(c.Seed, "c04blob", i), 1+i%9)
		h1 := sha256.Sum256(b)
		h2 := sha256.Sum256(h1[:])
		blobs, digests = append(blobs, b), append(digests, h2[:])
	}
	goroutines, rounds := 16, c.Pick(6, 30)
	var wg sync.WaitGroup
	var verdicts, hashes, wrongAccept, wrongReject, wrongDigest atomic.Int64
	var first atomic.Pointer[job]
	start := make(chan struct{})
	for g := 0; g < goroutines; g++ {
		wg.Add(1)
		go func(g int) {
			defer wg.Done()
			<-start
			for rd := 0; rd < rounds; rd++ {
				if g%4 == 3 {
					for i := range blobs {
						k := (i*7 + g + rd) % len(blobs)
						if !bytes.Equal(goatcrypto.DoubleSHA256Sum(blobs[k]), digests[k]) {
							wrongDigest.Add(1)
						}
						hashes.Add(1)
					}
					continue
				}
				for i := range jobs {
					j := &jobs[(i*(2*g+1)+rd*31)%len(jobs)]
					got := btctypes.VerifyMerkelProof(j.leaf, root, j.path, j.pos)
					verdicts.Add(1)
					if got != j.want {
						if got {
							wrongAccept.Add(1)
						} else {
							wrongReject.Add(1)
						}
						first.CompareAndSwap(nil, j)
					}
				}
			}
		}(g)
	}
	close(start)
	wg.Wait()
	c.Eval(int(verdicts.Load()))
	c.Count("concurrent_verdicts_compared", int(verdicts.Load()))
	c.Count("concurrent_double_hashes_compared", int(hashes.Load()))
	c.Count("concurrent_batches", 1)
	c.Nontrivial("concurrent size=%d goroutines=%d wrong=%v", size, goroutines, wrongAccept.Load()+wrongReject.Load()+wrongDigest.Load() > 0)
	rep := map[string]any{"tree_size": size, "goroutines": goroutines, "rounds": rounds, "wrong_accepts": wrongAccept.Load(), "wrong_rejects": wrongReject.Load(), "wrong_digests": wrongDigest.Load()}
	if j := first.Load(); j != nil {
		rep["first"] = map[string]any{"variant": j.variant, "leaf": fmt.Sprintf("%x", j.leaf), "path": fmt.Sprintf("%x", j.path), "pos": j.pos, "root": fmt.Sprintf("%x", root), "reference": j.want}
	}
	if n := wrongAccept.Load(); n > 0 {
		c.Violation("accepts an invalid proof while other verifications run", fmt.Sprintf("tree of %d leaves, %d goroutines: %d invalid proofs accepted, %d valid ones rejected (the same inputs are judged correctly one at a time)", size, goroutines, n, wrongReject.Load()), rep)
	} else if n := wrongReject.Load(); n > 0 {
		c.Violation("rejects a valid proof while other verifications run", fmt.Sprintf("tree of %d leaves, %d goroutines: %d valid proofs rejected", size, goroutines, n), rep)
	}
	if n := wrongDigest.Load(); n > 0 {
		c.Violation("double hash of a transaction differs while other hashes are computed", fmt.Sprintf("%d of %d digests wrong", n, hashes.Load()), rep)
	}
	// and once more one at a time: the concurrent phase must not have left anything behind
	for i := range jobs {
		j := &jobs[i]
		c04Judge(c, size, int(j.pos), "after-concurrent-"+j.variant, j.leaf, root, j.path, j.pos, j.pos, depth)
	}
}

// c04Bridge: the same verdicts through the caller that matters - deposit checking in the real application. Bitcoin blocks
// of k transactions are mined in which every position 1..k-1 carries a genuine deposit (so every tree shape is used,
// including the last transaction of an odd-sized block, whose path starts with its own txid), their hashes are voted,
// and each deposit is submitted on its own with its genuine path and position: all of them must be accepted. A deposit
// that is refused while its neighbours of the same block pass differs from them in position and path only.
func c04Bridge(c *vc.Ctx, batch int) {
	sizes := [][]int{{1, 2, 3, 4, 5}, {6, 7, 9}, {8, 11, 13, 1}, {16, 17}, {15, 33}, {31, 32}}[batch%6]
	res, ok := depositProbe(c, batch, "c04bridge", sizes, nil, nil)
	accepted := 0
	for _, r := range res {
		c.Eval(1)
		c.Nontrivial("bridge k=%d pos=%d last=%v accepted=%v", r.blockTxs, r.d.Index, r.d.Index == r.blockTxs-1, r.code == 0)
		if r.code == 0 {
			accepted++
			c.Count("genuine_proofs_accepted_through_the_bridge", 1)
		}
	}
	if !ok || accepted == 0 {
		if len(res) > 0 && accepted == 0 {
			c.Inconclusive("no deposit of the probe was accepted (first answer: %s)", res[0].log)
		}
		return
	}
	for _, r := range res {
		if r.code != 0 {
			c.Violation("the bridge refuses a valid inclusion proof", fmt.Sprintf("transaction %d of a block of %d transactions (genuine path of %d nodes, true position) refused: %s; %d other deposits of the probe were accepted", r.d.Index, r.blockTxs, len(r.d.Block.Tree.Proof(r.d.Index))/32, errClass(r.log), accepted),
				map[string]any{"block_transactions": r.blockTxs, "position": r.d.Index, "log": r.log})
		}
	}
}

func init() {
	quickRand, thoroughRand := 16, 400
	quickConc, thoroughConc := 6, 24
	quickBridge, thoroughBridge := 3, 12
	vc.Register(&vc.Check{
		ID: "C04", Title: "Merkle inclusion proofs are sound and position-binding", Level: "exploration",
		Rule: "bounded-exhaustive differential of VerifyMerkelProof against a reference written from the statement: every tree size in {1..33,63,64,65}, " +
			"every leaf, every claimed position in [0,4*2^depth) plus aliases pos+2^k and 2^31/2^32-1, path variants genuine/truncated/extended/swapped/bit-flipped/ragged/empty and wrong leaf/root sizes; " +
			"then seeded random trees (size<=300) with mutated positions and paths; then synthetic paths of 13..100 nodes (around and beyond the 32-bit width of the position) whose root is the fold of a random leaf under positions 0, 1, 2^31, 2^32-1, 2^d-1 and random ones, each also with one sibling changed and with one position bit flipped. Non-trivial = the claimed position or the path differs from the genuine one; " +
			"distinct = (tree size, variant, position class, verdict). " +
			"Then concurrent batches: 16 goroutines verify genuine proofs, foreign leaves under genuine paths, sibling positions and bit-flipped paths of one tree at the same time, next to goroutines double-hashing transactions, every verdict and digest compared with the sequentially computed reference; the whole check also runs in the race-detector build, where a report of unsynchronised shared memory is a violation. " +
			"Finally 3/12 histories on the real application: Bitcoin blocks of 1..33 transactions (a single-transaction block has an empty path) in which every position carries a genuine deposit, each submitted with its genuine path and position - all must be accepted by deposit checking (the caller of the verifier).",
		Assume: []string{"crypto/sha256 of the Go standard library is correct (the reference and the tree builder use it, not pkg/crypto)"},
		Cases: func(tier string) int {
			if tier == "thorough" {
				return len(c04Sizes) + thoroughRand + 16 + thoroughConc + thoroughBridge
			}
			return len(c04Sizes) + quickRand + 4 + quickConc + quickBridge
		},
		Run: func(c *vc.Ctx, i int) {
			nd := map[string]int{"quick": 4, "thorough": 16}[c.Tier]
			if base := len(c04Sizes) + map[string]int{"quick": quickRand, "thorough": thoroughRand}[c.Tier] + nd; i >= base {
				if nc := map[string]int{"quick": quickConc, "thorough": thoroughConc}[c.Tier]; i >= base+nc {
					if os.Getenv("VERIF_SANITIZER_BUILD") == "" { // the application histories run on the plain build only
						c04Bridge(c, i-base-nc)
					}
					return
				}
				c04Concurrent(c, i-base)
				return
			}
			_ = quickBridge
			_ = thoroughBridge
			_ = quickConc
			_ = thoroughConc
			if i < len(c04Sizes) {
				c04Enumerate(c, c04Sizes[i])
				return
			}
			if nr := map[string]int{"quick": quickRand, "thorough": thoroughRand}[c.Tier]; i >= len(c04Sizes)+nr {
				c04Deep(c, i-len(c04Sizes)-nr)
				return
			}
			n := 260
			if c.Thorough() {
				n = 520
			}
			c04Random(c, i-len(c04Sizes), n)
		},
	})
}
