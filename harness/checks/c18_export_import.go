package checks

import (
	"bytes"
	"crypto/sha256"
	"encoding/hex"
	"encoding/json"
	"fmt"
	"os"
	"sort"
	"strings"
	"time"

	servertypes "github.com/cosmos/cosmos-sdk/server/types"
	"github.com/ethereum/go-ethereum/common"
	"github.com/ethereum/go-ethereum/core/types/goattypes"
	bitcointypes "github.com/goatnetwork/goat/x/bitcoin/types"
	lockingtypes "github.com/goatnetwork/goat/x/locking/types"
	relayertypes "github.com/goatnetwork/goat/x/relayer/types"

	"verif/harness/vc"
	"verif/harness/world"
)

// C18: export a reachable state, start a fresh chain from it, compare and keep running with the
// invariant monitors switched on.

func canonJSON(raw json.RawMessage) string {
	var v any
	if err := json.Unmarshal(raw, &v); err != nil {
		return string(raw)
	}
	bz, _ := json.Marshal(v)
	return string(bz)
}

func stateTraits(s *world.Snap) (traits []string) {
	st := map[lockingtypes.ValidatorStatus]bool{}
	for _, v := range s.Locking.Validators {
		st[v.Status] = true
	}
	for k := range st {
		traits = append(traits, "validator:"+k.String())
	}
	vs := map[relayertypes.VoterStatus]bool{}
	for _, v := range s.Relayer.Voters {
		vs[v.Status] = true
	}
	for k := range vs {
		traits = append(traits, "voter:"+k.String())
	}
	ws := map[bitcointypes.WithdrawalStatus]bool{}
	for _, w := range s.Bitcoin.Withdrawals {
		ws[w.Withdrawal.Status] = true
	}
	for k := range ws {
		traits = append(traits, "withdrawal:"+k.String())
	}
	if len(s.Bitcoin.Processing) > 0 {
		traits = append(traits, "processing-batches")
	}
	if q := s.Bitcoin.EthTxQueue; len(q.Deposits)+len(q.PaidWithdrawals)+len(q.RejectedWithdrawals) > 0 || q.BlockNumber < s.Bitcoin.BlockTip {
		traits = append(traits, "bridge-queue")
	}
	if q := s.Locking.EthTxQueue; len(q.Rewards)+len(q.Unlocks) > 0 {
		traits = append(traits, "locking-queue")
	}
	if len(s.Locking.UnlockQueue) > 0 {
		traits = append(traits, "pending-unlocks")
	}
	if !s.Locking.Slashed.IsZero() {
		traits = append(traits, "slashed")
	}
	if s.Bitcoin.Params.DepositTaxRate > 0 || s.Bitcoin.Params.MinDepositAmount != 10000 {
		traits = append(traits, "bridge-params-changed")
	}
	if len(s.Relayer.Pubkeys) > 1 {
		traits = append(traits, "several-relayer-keys")
	}
	return
}

// c18Import imports exp into a fresh node and judges it. src is the chain the export came from.
func c18Import(c *vc.Ctx, lh *lockHist, exp servertypes.ExportedApp, viol func(sig, detail string)) {
	w := lh.ch.W
	src, err := w.SnapFromExport(exp)
	if err != nil {
		c.Inconclusive("parse export: %v", err)
		return
	}
	traits := stateTraits(src)
	c.Eval(1)
	c.Nontrivial("%v", traits)
	c.Count("states_exported", 1)
	db, dir, err := w.NewDB(fmt.Sprintf("imp-%d", exp.Height))
	if err != nil {
		c.Inconclusive("db: %v", err)
		return
	}
	n, err := w.OpenNode(0, db, dir)
	if err != nil {
		c.Inconclusive("open node: %v", err)
		return
	}
	defer n.Close()
	now := lh.ch.Now
	resp, err := n.InitFromExport(exp, now)
	if err != nil {
		viol("an exported state cannot be imported: "+importErrClass(err.Error()), fmt.Sprintf("export at height %d with %v: %v", exp.Height-1, traits, err))
		return
	}
	c.Count("imports_succeeded", 1)
	// InitChain's validators are the exported active set
	got := map[string]int64{}
	for _, v := range resp.Validators {
		got[fmt.Sprintf("%x", v.PubKey.GetSecp256K1())] = v.Power
	}
	for _, v := range exp.Validators {
		if got[fmt.Sprintf("%x", v.PubKey.Bytes())] != v.Power {
			viol("the initial validator set differs from the exported active set", fmt.Sprintf("validator %x power %d, InitChain says %d", v.PubKey.Bytes()[:4], v.Power, got[fmt.Sprintf("%x", v.PubKey.Bytes())]))
		}
	}
	if len(resp.Validators) != 0 && len(resp.Validators) != len(exp.Validators) {
		viol("the initial validator set differs from the exported active set", fmt.Sprintf("%d vs %d validators", len(resp.Validators), len(exp.Validators)))
	}
	// a second export (of the imported, not yet advanced state) is identical to the first
	pend, err := n.PendingExport()
	if err != nil {
		viol("the imported state cannot be exported again", err.Error())
		return
	}
	for _, mod := range []string{"auth", "relayer", "bitcoin", "locking", "goat"} {
		a, b := canonJSON(src.RawJSON[mod]), canonJSON(pend[mod])
		if a != b {
			viol("a second export differs from the first: "+mod, fmt.Sprintf("export at height %d (%v): %s", exp.Height-1, traits, firstDiff(a, b)))
		}
	}
	c.Count("re_exports_compared", 1)
	// the raw module stores: everything the running chain keeps - exported items and the indices and queues derived
	// from them (power ranking, stake index, threshold list, validator set record, key registry) - must be there again
	for _, mod := range []string{"relayer", "bitcoin", "locking", "goat"} {
		a, errA := lh.ch.Node().DumpStore(mod, false)
		b, errB := n.DumpStore(mod, true)
		if errA != nil || errB != nil {
			c.Inconclusive("store dump %s: %v %v", mod, errA, errB)
			continue
		}
		c.Eval(1)
		var diffs []string
		for k, v := range a {
			if w, ok := b[k]; !ok {
				diffs = append(diffs, fmt.Sprintf("prefix %s: key %s only on the source chain", k[:min(2, len(k))], k))
			} else if w != v && !(mod == "relayer" && k == "05" && sameVoterQueue(v, w)) {
				diffs = append(diffs, fmt.Sprintf("prefix %s: key %s: source %s imported %s", k[:min(2, len(k))], k, v, w))
			}
		}
		for k := range b {
			if _, ok := a[k]; !ok {
				diffs = append(diffs, fmt.Sprintf("prefix %s: key %s only on the imported chain", k[:min(2, len(k))], k))
			}
		}
		sort.Strings(diffs)
		if len(diffs) > 0 {
			viol("the imported chain's store differs from the source chain's: "+mod+" "+diffs[0][:9], fmt.Sprintf("export at height %d (%v): %d differing keys, first: %s", exp.Height-1, traits, len(diffs), strings.Join(diffs[:min(3, len(diffs))], "; ")))
		}
		c.Count("module_stores_compared", 1)
	}
	// importing the same export again gives the same state, byte for byte: every node of the new chain starts from this
	// genesis, and a difference in any store (say a queue rebuilt in another order) splits them at the first block.
	// Three further imports; seven when the boarding queue holds two or more voters.
	again := 3
	if len(src.Relayer.Voters) > 0 {
		nq := 0
		for _, v := range src.Relayer.Voters {
			if v.Status == relayertypes.VOTER_STATUS_ON_BOARDING || v.Status == relayertypes.VOTER_STATUS_OFF_BOARDING {
				nq++
			}
		}
		if nq >= 2 {
			again = 7
			c.Count("exports_with_two_or_more_queued_voters", 1)
		}
	}
	first := map[string]map[string]string{}
	for _, mod := range []string{"relayer", "bitcoin", "locking", "goat"} {
		if d, err := n.DumpStore(mod, true); err == nil {
			first[mod] = d
		}
	}
	for k := 0; k < again; k++ {
		db2, dir2, err := w.NewDB(fmt.Sprintf("imp-%d-again-%d", exp.Height, k))
		if err != nil {
			c.Inconclusive("db: %v", err)
			break
		}
		n2, err := w.OpenNode(0, db2, dir2)
		if err != nil {
			c.Inconclusive("open node: %v", err)
			break
		}
		if _, err := n2.InitFromExport(exp, now); err != nil {
			viol("an export that was imported once cannot be imported again", fmt.Sprintf("export at height %d: %v", exp.Height-1, err))
			n2.Close()
			break
		}
		for mod, d1 := range first {
			d2, err := n2.DumpStore(mod, true)
			if err != nil {
				c.Inconclusive("store dump %s: %v", mod, err)
				continue
			}
			c.Eval(1)
			var diffs []string
			for k1, v1 := range d1 {
				if v2, ok := d2[k1]; !ok || v2 != v1 {
					diffs = append(diffs, fmt.Sprintf("key %s: first import %s, import %d %s", k1, v1, k+2, d2[k1]))
				}
			}
			for k2 := range d2 {
				if _, ok := d1[k2]; !ok {
					diffs = append(diffs, fmt.Sprintf("key %s only in import %d", k2, k+2))
				}
			}
			sort.Strings(diffs)
			if len(diffs) > 0 {
				viol("importing the same export twice gives different states: "+mod+" prefix "+diffs[0][4:6], fmt.Sprintf("export at height %d (%v): %d differing keys, first: %s", exp.Height-1, traits, len(diffs), diffs[0]))
			}
		}
		c.Count("repeated_imports_compared", 1)
		n2.Close()
	}
	// keep running: 20 blocks with the locking workload and the invariant monitors
	ch := world.ChainFromExport(w, n, exp, now)
	ih := &lockHist{c: c, cfg: lh.cfg, r: world.NewRand(c.Seed, "c18-continue", int(exp.Height)), ch: ch, unlocks: map[uint64]*unlockRec{}, claims: map[uint64]*claimRec{}, absentRun: map[int]int{}, tokens: lh.tokens}
	ih.cfg.Label = "c18-imported"
	ih.cfg.Adversarial = false
	ih.cfg.StepOpts = nil
	for _, v := range lh.vals {
		cp := *v
		if src.Validator(v.Key.Cons) == nil {
			cp.Created = false
		}
		ih.vals = append(ih.vals, &cp)
	}
	ih.nextUID, ih.nextCID = lh.nextUID+1000, lh.nextCID+1000
	ih.post = src
	if os.Getenv("VERIF_DEBUG") != "" {
		for _, v := range exp.Validators {
			fmt.Fprintf(os.Stderr, "DEBUG export h=%d validator %x power %d\n", exp.Height, v.PubKey.Bytes()[:4], v.Power)
		}
		for _, v := range src.Locking.Validators {
			fmt.Fprintf(os.Stderr, "DEBUG   record %x status %s power %d locking %s\n", v.Pubkey[:4], v.Status, v.Power, v.Locking)
		}
	}
	ih.crashFn = func(cr *world.ErrCrash) {
		viol("the imported chain fails to process blocks: "+errClass(cr.Err.Error()), fmt.Sprintf("state exported at height %d (%v): %v", exp.Height-1, traits, cr))
	}
	ih.rejectFn = func(rj *world.ErrRejected) {
		viol("the imported chain rejects its own honest proposal", fmt.Sprintf("state exported at height %d (%v): %v", exp.Height-1, traits, rj))
	}
	// ---- probe of the derived stake index: the same weight raise on the source chain and on the imported
	// chain must move every validator's power by the same amount (differential, no formula) ----
	probe := func(o *blockOps) {
		for _, tk := range lh.tokens {
			cur := uint64(0)
			if t := lh.token(src, tk); t != nil {
				cur = t.Weight
			}
			o.Reqs.Locking.UpdateWeights = append(o.Reqs.Locking.UpdateWeights, &goattypes.UpdateTokenWeightRequest{Token: tk, Weight: cur + 3})
		}
		o.Desc = append(o.Desc, "probe: raise every token weight by 3")
	}
	powerOf := func(s *world.Snap) map[string][2]uint64 {
		m := map[string][2]uint64{}
		for _, v := range s.Locking.Validators {
			m[fmt.Sprintf("%x", v.Pubkey)] = [2]uint64{v.Power, uint64(v.Status)}
		}
		return m
	}
	{
		w0, a0 := lh.cfg.W, lh.absentRun
		lh.cfg.W, lh.absentRun = lockWeights{}, map[int]int{}
		lh.extra = probe
		okSrc := lh.step()
		lh.extra = nil
		lh.cfg.W, lh.absentRun = w0, a0
		iw0 := ih.cfg.W
		ih.cfg.W = lockWeights{}
		ih.extra = probe
		okImp := okSrc && ih.step()
		ih.extra = nil
		ih.cfg.W = iw0
		if okSrc && okImp && lh.blk.BlockOK && ih.blk.BlockOK {
			sa, sb := powerOf(lh.pre), powerOf(lh.post)
			ib := powerOf(ih.post)
			for k, before := range sa {
				after, onImp := sb[k], ib[k]
				if st := lockingtypes.ValidatorStatus(after[1]); before[1] != after[1] && st != lockingtypes.Pending && st != lockingtypes.Active {
					continue // punished or exited on the source chain in this very block: not comparable
				}
				if after != onImp {
					viol("a derived index was not rebuilt on import: the same weight change moves a validator differently", fmt.Sprintf("state exported at height %d (%v): validator %s power %d -> %d (status %d) on the source chain, %d (status %d) on the chain started from the export",
						exp.Height-1, traits, k[:8], before[0], after[0], after[1], onImp[0], onImp[1]))
				}
			}
			c.Count("weight_probes_compared", 1)
		} else if okSrc && !okImp {
			return
		}
	}
	m11 := newC11Mon(ih)
	// unlocks queued before the export are released on the imported chain: they belong to the balance
	m12 := newC12Mon(ih)
	blocks := c.Pick(14, 30)
	for b := 0; b < blocks && !ih.failed; b++ {
		if !ih.step() {
			break
		}
		if !ih.blk.BlockOK {
			viol("the imported chain's block message fails: "+failClass(ih.blk.Resp.TxResults[0].Log), fmt.Sprintf("state exported at height %d (%v), block %d: %s", exp.Height-1, traits, ih.blk.Height, ih.blk.Resp.TxResults[0].Log))
			break
		}
		m11.afterBlock()
		m12.afterBlock()
		c13After(ih)
		c.Count("blocks_on_imported_chains", 1)
	}
	// queries on the imported chain answer for everything the export contained
	if ih.failed || ch.Height < exp.Height {
		return
	}
	for _, v := range src.Locking.Validators {
		var r lockingtypes.QueryValidatorResponse
		addr := common.BytesToAddress(cmtsecpPubOf(v.Pubkey).Address()).Hex()
		if err := n.Query("/goat.locking.v1.Query/Validator", &lockingtypes.QueryValidatorRequest{Address: addr}, &r); err != nil {
			viol("a validator of the export cannot be queried on the imported chain", fmt.Sprintf("%s: %v", addr, err))
		}
		c.Count("queries_compared", 1)
	}
	for _, wd := range src.Bitcoin.Withdrawals {
		var r bitcointypes.QueryWithdrawalResponse
		if err := n.Query("/goat.bitcoin.v1.Query/Withdrawal", &bitcointypes.QueryWithdrawalRequest{Id: wd.Id}, &r); err != nil {
			viol("a withdrawal of the export cannot be queried on the imported chain", fmt.Sprintf("%d: %v", wd.Id, err))
		} else if r.Withdrawal.Status != wd.Withdrawal.Status && wd.Withdrawal.Status != bitcointypes.WITHDRAWAL_STATUS_PENDING {
			// nothing on the imported chain touched withdrawals
			viol("a withdrawal changed status across export/import", fmt.Sprintf("%d: %s -> %s", wd.Id, wd.Withdrawal.Status, r.Withdrawal.Status))
		}
		c.Count("queries_compared", 1)
	}
	for _, d := range src.Bitcoin.Deposits {
		var r bitcointypes.QueryHasDepositedResponse
		txid := append([]byte(nil), d.Txid...)
		for i, j := 0, len(txid)-1; i < j; i, j = i+1, j-1 {
			txid[i], txid[j] = txid[j], txid[i]
		}
		if err := n.Query("/goat.bitcoin.v1.Query/HasDeposited", &bitcointypes.QueryHasDeposited{Txid: fmt.Sprintf("%x", txid), Txout: d.Txout}, &r); err != nil || !r.Yes {
			viol("a credited deposit of the export is unknown on the imported chain", fmt.Sprintf("%x/%d", d.Txid, d.Txout))
		}
		c.Count("queries_compared", 1)
	}
	for _, v := range src.Relayer.Voters {
		var r relayertypes.QueryVoterResponse
		if err := n.Query("/goat.relayer.v1.Query/Voter", &relayertypes.QueryVoterRequest{Address: sdkAcc(v.Address)}, &r); err != nil {
			// a member may have been removed by an election on the imported chain; only members that still exist are compared
			continue
		}
		c.Count("queries_compared", 1)
	}
}

func firstDiff(a, b string) string {
	i := 0
	for i < len(a) && i < len(b) && a[i] == b[i] {
		i++
	}
	lo := i - 60
	if lo < 0 {
		lo = 0
	}
	hi := func(s string) int {
		if i+80 < len(s) {
			return i + 80
		}
		return len(s)
	}
	return fmt.Sprintf("first export ...%s... | second ...%s...", a[lo:hi(a)], b[lo:hi(b)])
}

// sameVoterQueue compares the relayer's boarding queue as two sets: the import rebuilds it from the voters' statuses,
// and the statement asks derived queues to satisfy the same invariants, not to keep their order.
func sameVoterQueue(a, b string) bool {
	dec := func(h string) (*relayertypes.VoterQueue, bool) {
		raw, err := hex.DecodeString(h)
		if err != nil {
			return nil, false
		}
		var q relayertypes.VoterQueue
		if err := q.Unmarshal(raw); err != nil {
			return nil, false
		}
		sort.Strings(q.OnBoarding)
		sort.Strings(q.OffBoarding)
		return &q, true
	}
	qa, ok1 := dec(a)
	qb, ok2 := dec(b)
	return ok1 && ok2 && strings.Join(qa.OnBoarding, ",") == strings.Join(qb.OnBoarding, ",") && strings.Join(qa.OffBoarding, ",") == strings.Join(qb.OffBoarding, ",")
}

func c18History(c *vc.Ctx, idx int) {
	cfg := lockCfg{Label: "c18", NVals: 2 + idx%3, MaxVals: int64([]int{4, 2, 4}[idx%3]), Blocks: c.Pick(70, 160), // every third history has two seats only: funded candidates wait outside the set at most exports
		Protect0: true, NRelayers: 2 + idx%2, JumpTime: idx%3 == 0,
		W: lockWeights{Create: 12, Lock: 40, Unlock: 40, Claim: 25, Grant: 8, Weight: 8, Threshold: 8, Absent: 25, Evidence: 6, DustLock: 10, BigUnlock: 15},
		Params: func(p *lockingtypes.Params) {
			p.UnlockDuration = 15 * time.Second
			p.ExitingDuration = 30 * time.Second
		},
		Relayer: func(g *relayertypes.GenesisState) { g.Params.ElectingPeriod = 40 * time.Second }}
	// every third voter candidate already owns an account when it registers (as a returning member or any funded
	// address would): such a voter is parked for removal straight away instead of boarding
	candMember := func(n int) *world.Member { return world.NewMember(c.Seed, fmt.Sprintf("c18cand-%d", idx), n) }
	for n := 1; n < 40; n += 3 {
		cfg.ExtraAccounts = append(cfg.ExtraAccounts, candMember(n).Addr)
	}
	lh, err := newLockHistSchnorr(c, cfg, idx, idx%2 == 1)
	if err != nil {
		c.Inconclusive("setup: %v", err)
		return
	}
	defer lh.close()
	lh.crashFn = func(cr *world.ErrCrash) { c.Inconclusive("the source history failed (reported under C13): %v", cr) }
	b := newBridgeHist(lh)
	wm := newWdMon(b)
	viol := func(sig, detail string) { c.Violation(sig, detail, lh.replay()) }
	r := lh.r
	w0 := lh.cfg.W
	lh.cfg.W = lockWeights{}
	if !lh.step() {
		return
	}
	lh.cfg.W = w0
	muts := c03Mutators()
	var addrPool []addrCase
	for _, ac := range c17AddrCases(c.Seed, 11000+idx, 1, regtest) {
		if ac.Str != "" && ac.Expect != 2 {
			addrPool = append(addrPool, ac)
		}
	}
	expectOf := map[string]addrCase{}
	for _, ac := range addrPool {
		expectOf[ac.Str] = ac
	}
	wm.classify = func(a string) []byte {
		if ac, ok := expectOf[a]; ok {
			if ac.Expect == 1 {
				return ac.Script
			}
			return nil
		}
		sc, _, err := scriptOfAddress(a)
		if err != nil {
			return nil
		}
		return sc
	}
	var cands []*candidate
	b.extraMembers = func() []*world.Member {
		var cm []*world.Member
		for _, cd := range cands {
			cm = append(cm, cd.m)
		}
		return cm
	}
	imports := 0
	// directed: the execution layer asks for six fresh voters at once, all of them register in the next blocks, and the
	// state is exported while they wait in the boarding queue (the next election would drain it)
	rushAt := 14 + idx%9
	for blk := 0; blk < cfg.Blocks && !lh.failed; blk++ {
		if !b.refreshGroup() {
			return
		}
		c03Gen(b, blk, muts)
		c05Gen(wm, blk, cfg.Blocks, idx, addrPool)
		// relayer membership: pending voters, boarding voters, off-boarding members
		var rq goattypes.RelayerRequests
		if blk == rushAt {
			for k := 0; k < 6; k++ {
				m := candMember(len(cands))
				kh := sha256.Sum256(m.BLSPub)
				cands = append(cands, &candidate{m: m, regHeight: uint64(lh.ch.Height + 1), hashOK: true, state: "pending"})
				rq.Adds = append(rq.Adds, &goattypes.AddVoterRequest{Voter: common.BytesToAddress(m.Addr), Pubkey: common.BytesToHash(kh[:])})
			}
			lh.logf("EL: add six voter candidates at once")
		}
		rush := blk > rushAt && blk <= rushAt+2
		if r.Intn(6) == 0 {
			m := candMember(len(cands))
			if len(cands)%5 == 4 && idx%3 == 2 {
				// (every third history; see known_findings.json: such a state is not importable, which ends the history's imports)
				// a candidate that is announced with (and later registers) the vote key of an earlier candidate or of a member:
				// nothing at run time forbids it (C16 judges such groups), so it is a reachable state to export
				tw := lh.ch.W.Members[len(cands)%len(lh.ch.W.Members)]
				if len(cands)%10 == 9 {
					tw = cands[len(cands)-2].m
				}
				m.BLS, m.BLSPub = tw.BLS, tw.BLSPub
				c.Count("candidates_sharing_a_vote_key", 1)
			}
			kh := sha256.Sum256(m.BLSPub)
			cands = append(cands, &candidate{m: m, regHeight: uint64(lh.ch.Height + 1), hashOK: true, state: "pending"})
			rq.Adds = append(rq.Adds, &goattypes.AddVoterRequest{Voter: common.BytesToAddress(m.Addr), Pubkey: common.BytesToHash(kh[:])})
			lh.logf("EL: add voter candidate %d", len(cands)-1)
		}
		if r.Intn(14) == 0 && len(b.group.Voters) > 0 && b.group.Voters[0] != nil {
			rq.Removes = append(rq.Removes, &goattypes.RemoveVoterRequest{Voter: common.BytesToAddress(b.group.Voters[0].Addr)})
			lh.logf("EL: remove a voter")
		}
		for ci, cd := range cands {
			if cd.state == "pending" && uint64(lh.ch.Height) >= cd.regHeight && (r.Intn(3) == 0 || rush) {
				kh := sha256.Sum256(cd.m.BLSPub)
				txp, blsp := voterProofs(cd.m, lh.ch.W.Cfg.ChainID, b.group.Proposer.AddrStr, b.group.Epoch, cd.regHeight, kh[:])
				cd := cd
				b.ops = append(b.ops, &relOp{msg: &relayertypes.MsgNewVoterRequest{Proposer: b.group.Proposer.AddrStr, VoterBlsKey: cd.m.BLSPub, VoterTxKey: cd.m.Tx.PubKey().Bytes(), VoterTxKeyProof: txp, VoterBlsKeyProof: blsp},
					desc: fmt.Sprintf("new-voter candidate %d", ci), judge: func(code uint32, log string) {
						if code == 0 {
							cd.state = "boarding"
						}
					}})
			}
		}
		b.extraLocking = func(o *blockOps) { o.Reqs.Relayer = rq }
		if !b.runBlock() {
			return
		}
		// export at irregular intervals, including right after busy blocks
		if lh.vsetEnded {
			break // the last validator left: CometBFT never commits this block, the state is not a reachable one
		}
		boarding := 0
		for _, cd := range cands {
			if cd.state == "boarding" {
				boarding++
			}
		}
		rushExport := blk == rushAt+2 && boarding >= 2
		if rushExport {
			c.Count("exports_taken_while_several_voters_board", 1)
		}
		if blk >= 10 && (blk%13 == 5 || r.Intn(25) == 0 || rushExport) && (imports < c.Pick(5, 12) || rushExport) {
			exp, err := lh.ch.Node().Export()
			if err != nil {
				viol("a reachable state cannot be exported", err.Error())
				continue
			}
			imports++
			c18Import(c, lh, exp, viol)
		}
	}
	if imports == 0 {
		c.Count("histories_without_an_export", 1) // judged over the whole run (checkconf.json: require_observed)
	}
	c.Sample(map[string]any{"source_blocks": lh.ch.Height, "imports": imports, "final_state_traits": stateTraits(lh.post), "last_ops": lastN(lh.opsLog, 3)})
}

func init() {
	vc.Register(&vc.Check{
		ID: "C18", Title: "Exported state re-imports to an equivalent, invariant-respecting state", Level: "exploration",
		Rule: "one case = one rich source history (70/160 blocks: the locking workload with creates, dust locks, unlock bursts, weight/threshold changes, absences, evidence; deposits and withdrawals in every stage; relayer key rotation; pending, boarding and off-boarding voters; tax/minimum changes) from which 5/12 states are exported at irregular heights; each export is imported into a fresh node exactly as CometBFT starts a chain from it (InitChain with initial height = exported height and validators = exported validators), and then three (seven with two or more queued voters; a directed six-candidate boarding rush is exported while they wait) more times, the imports' raw stores compared byte for byte; " +
			"oracles: the import neither errors nor panics; InitChain's validators equal the exported active set; a module-by-module export of the imported state equals the first export (canonical JSON); the imported chain then runs 14/30 blocks of the locking workload (first block with the empty LastCommit CometBFT sends at the initial height) during which FinalizeBlock never fails, honest proposals are accepted, the block message succeeds, and the C11 (locked funds), C12 (rewards) and C13 (validator set) monitors hold; finally every validator, withdrawal, credited deposit and voter of the export can be queried. Non-trivial = an exported state; distinct = the set of state traits it has (validator/voter/withdrawal statuses present, queues, slashing, parameters).",
		Assume: []string{"queries are compared after the imported chain has advanced; only facts the locking workload cannot change are compared"},
		Cases:  func(tier string) int { return map[string]int{"quick": 32, "thorough": 120}[tier] },
		Run:    func(c *vc.Ctx, i int) { c18History(c, i) },
	})
}

var _ = bytes.Equal

// importErrClass gives import failures a stable name (error texts carry raw addresses).
func importErrClass(s string) string {
	for _, k := range []string{"invalid bls pubkey length", "invalid bls pubkey hash length", "invalid deposit tax", "MaxDepositTax is too large", "duplicated vote key", "missing proposer", "voter should not be a proposer",
		"duplicated deposit", "invalid block hash length", "doesn't exists", "validator set", "duplicated voter"} {
		if bytes.Contains([]byte(s), []byte(k)) {
			return k
		}
	}
	out := []rune{}
	for _, r := range s {
		if r >= 'a' && r <= 'z' || r >= 'A' && r <= 'Z' || r == ' ' || r == ':' {
			out = append(out, r)
		}
		if len(out) > 70 {
			break
		}
	}
	return string(out)
}
