package checks

import (
	"fmt"
	"math/big"

	"cosmossdk.io/math"
	"github.com/ethereum/go-ethereum/core/types/goattypes"
	lockingtypes "github.com/goatnetwork/goat/x/locking/types"

	"verif/harness/vc"
	"verif/harness/world"
)

// c12Mon checks reward conservation and the emission schedule on every committed block.
type c12Mon struct {
	h            *lockHist
	genesisTotal *big.Int
	grantsIn     *big.Int
	gasIn        *big.Int
	delivered    *big.Int
	queuedClaims map[uint64][2]*big.Int
}

func bi(i math.Int) *big.Int {
	if i.IsNil() {
		return new(big.Int)
	}
	return i.BigInt()
}

func c12Total(s *world.Snap) *big.Int {
	t := new(big.Int)
	p := s.Locking.RewardPool
	t.Add(t, bi(p.Remain)).Add(t, bi(p.Goat)).Add(t, bi(p.Gas))
	for _, v := range s.Locking.Validators {
		t.Add(t, bi(v.Reward)).Add(t, bi(v.GasReward))
	}
	for _, r := range s.Locking.EthTxQueue.Rewards {
		t.Add(t, bi(r.Goat)).Add(t, bi(r.Gas))
	}
	return t
}

func newC12Mon(h *lockHist) *c12Mon {
	m := &c12Mon{h: h, genesisTotal: c12Total(h.post), grantsIn: new(big.Int), gasIn: new(big.Int), delivered: new(big.Int), queuedClaims: map[uint64][2]*big.Int{}}
	// a chain that starts from an exported state may already have claims queued for payout
	for _, r := range h.post.Locking.EthTxQueue.Rewards {
		m.queuedClaims[r.Id] = [2]*big.Int{bi(r.Goat), bi(r.Gas)}
	}
	return m
}

func (m *c12Mon) viol(sig, detail string) {
	m.h.c.Violation(sig, fmt.Sprintf("height %d: %s", m.h.blk.Height, detail), m.h.replay())
}

// tolerance of one share: 1 + pool*1e-18 (the precision of the 18-digit decimal)
func shareTol(pool *big.Int) *big.Int {
	t := new(big.Int).Div(pool, pow10(18))
	return t.Add(t, big.NewInt(2))
}

func (m *c12Mon) afterBlock() {
	h := m.h
	pre, post, blk, ops := h.pre, h.post, h.blk, h.ops
	H := blk.Height
	h.c.Eval(1)
	// what the execution layer received in this block
	if blk.BlockOK && blk.Payload != nil {
		n := int(blk.Payload.ExtraData[0])
		for i := 0; i < n && i < len(blk.Payload.Transactions); i++ {
			st, err := world.DecodeSysTx(blk.Payload.Transactions[i])
			if err != nil {
				continue
			}
			if r, ok := st.Tx.(*goattypes.DistributeRewardTx); ok {
				m.delivered.Add(m.delivered, r.Goat).Add(m.delivered, r.GasReward)
				q, known := m.queuedClaims[r.Id]
				if !known {
					m.viol("reward payout for a claim that was never queued", fmt.Sprintf("claim id %d", r.Id))
				} else if q[0].Cmp(r.Goat) != 0 || q[1].Cmp(r.GasReward) != 0 {
					m.viol("reward payout differs from the accrued amounts", fmt.Sprintf("claim %d queued (%s,%s) paid (%s,%s)", r.Id, q[0], q[1], r.Goat, r.GasReward))
				}
				if cl := h.claims[r.Id]; cl != nil && cl.Delivered > 1 {
					m.viol("claim paid out more than once", fmt.Sprintf("claim id %d delivered %d times", r.Id, cl.Delivered))
				}
				h.c.Count("claim_payouts_checked", 1)
			}
		}
		if ops.grants != nil {
			m.grantsIn.Add(m.grantsIn, ops.grants)
		}
		if ops.gas != nil && ops.gas.Sign() > 0 {
			m.gasIn.Add(m.gasIn, ops.gas)
		}
	}
	// conservation
	want := new(big.Int).Add(m.genesisTotal, m.grantsIn)
	want.Add(want, m.gasIn)
	got := new(big.Int).Add(c12Total(post), m.delivered)
	if want.Cmp(got) != 0 {
		m.viol("reward value not conserved", fmt.Sprintf("granted+gas+genesis=%s but pools+accrued+queued+paid=%s (difference %s)", want, got, new(big.Int).Sub(got, want)))
	}
	// nothing negative
	pp := post.Locking.RewardPool
	for name, v := range map[string]*big.Int{"remain": bi(pp.Remain), "goat pool": bi(pp.Goat), "gas pool": bi(pp.Gas)} {
		if v.Sign() < 0 {
			m.viol("negative reward pool", fmt.Sprintf("%s = %s after distributing among powers %v", name, v, votePowers(blk)))
		}
	}
	for _, v := range post.Locking.Validators {
		if bi(v.Reward).Sign() < 0 || bi(v.GasReward).Sign() < 0 {
			m.viol("negative accrued reward", fmt.Sprintf("validator %x reward=%s gas=%s", v.Pubkey[:4], v.Reward, v.GasReward))
		}
	}
	// new claims: queued == accrued before + share, accrual reset
	claimedGoat, claimedGas := map[int]*big.Int{}, map[int]*big.Int{}
	if blk.BlockOK {
		for _, cl := range ops.claims {
			var found *lockingtypes.Reward
			for _, r := range post.Locking.EthTxQueue.Rewards {
				if r.Id == cl.ID {
					found = r
				}
			}
			if found == nil {
				m.viol("claim was not queued", fmt.Sprintf("claim id %d", cl.ID))
				continue
			}
			cl.Goat, cl.Gas = bi(found.Goat), bi(found.Gas)
			m.queuedClaims[cl.ID] = [2]*big.Int{cl.Goat, cl.Gas}
			if claimedGoat[cl.Val] == nil {
				claimedGoat[cl.Val], claimedGas[cl.Val] = new(big.Int), new(big.Int)
			}
			claimedGoat[cl.Val].Add(claimedGoat[cl.Val], cl.Goat)
			claimedGas[cl.Val].Add(claimedGas[cl.Val], cl.Gas)
			pv := post.Validator(h.vals[cl.Val].Key.Cons)
			if pv != nil && (bi(pv.Reward).Sign() != 0 || bi(pv.GasReward).Sign() != 0) {
				m.viol("claim did not reset the accrued reward", fmt.Sprintf("validator v%d still has (%s,%s)", cl.Val, pv.Reward, pv.GasReward))
			}
			h.c.Count("claims_queued", 1)
		}
	}
	// emission: goat pool intake of this block
	prm := post.Locking.Params
	prePool := pre.Locking.RewardPool
	// distribution of the previous pools among the previous block's validators
	goatDust, gasDust := bi(prePool.Goat), bi(prePool.Gas)
	if H >= 2 && len(blk.Req.DecidedLastCommit.Votes) > 0 {
		votes := blk.Req.DecidedLastCommit.Votes
		var P int64
		for _, v := range votes {
			P += v.Validator.Power
		}
		sumGoat, sumGas := new(big.Int), new(big.Int)
		for _, v := range votes {
			vi := -1
			for i, hv := range h.vals {
				if string(hv.Key.Cons) == string(v.Validator.Address) {
					vi = i
				}
			}
			if vi < 0 {
				continue
			}
			pv, qv := pre.Validator(v.Validator.Address), post.Validator(v.Validator.Address)
			if pv == nil || qv == nil {
				continue
			}
			sG := new(big.Int).Sub(bi(qv.Reward), bi(pv.Reward))
			sF := new(big.Int).Sub(bi(qv.GasReward), bi(pv.GasReward))
			if claimedGoat[vi] != nil {
				sG.Add(sG, claimedGoat[vi])
				sF.Add(sF, claimedGas[vi])
			}
			sumGoat.Add(sumGoat, sG)
			sumGas.Add(sumGas, sF)
			for _, x := range []struct {
				name  string
				pool  *big.Int
				share *big.Int
			}{{"goat", bi(prePool.Goat), sG}, {"gas", bi(prePool.Gas), sF}} {
				exact := new(big.Int).Mul(x.pool, big.NewInt(v.Validator.Power))
				exact.Div(exact, big.NewInt(P))
				d := new(big.Int).Sub(x.share, exact)
				if d.CmpAbs(shareTol(x.pool)) > 0 {
					m.viol("reward share not proportional to voting power", fmt.Sprintf("%s pool %s, power %d of %d: share %s, proportional %s", x.name, x.pool, v.Validator.Power, P, x.share, exact))
				}
				h.c.Count("shares_checked", 1)
			}
		}
		goatDust = new(big.Int).Sub(bi(prePool.Goat), sumGoat)
		gasDust = new(big.Int).Sub(bi(prePool.Gas), sumGas)
		n := int64(len(votes))
		for _, x := range []struct {
			name string
			pool *big.Int
			dust *big.Int
		}{{"goat", bi(prePool.Goat), goatDust}, {"gas", bi(prePool.Gas), gasDust}} {
			bound := new(big.Int).Mul(shareTol(x.pool), big.NewInt(n))
			if x.dust.Sign() < 0 {
				m.viol("distributed more than the pool held", fmt.Sprintf("%s pool %s, shares sum to %s (dust %s), powers %v", x.name, x.pool, new(big.Int).Sub(x.pool, x.dust), x.dust, votePowers(blk)))
			} else if x.dust.Cmp(bound) > 0 {
				m.viol("more than rounding dust carried over", fmt.Sprintf("%s pool %s, dust %s > bound %s, powers %v", x.name, x.pool, x.dust, bound, votePowers(blk)))
			}
		}
		if bi(prePool.Goat).Sign() > 0 || bi(prePool.Gas).Sign() > 0 {
			h.c.Count("distributions_checked", 1)
			m.h.c.Nontrivial("n=%d distinctpowers=%d pool>0 halvings=%d", len(votes), distinctPowers(blk), H/prm.HalvingInterval)
		}
	}
	if blk.BlockOK {
		sched := new(big.Int).SetInt64(prm.InitialBlockReward)
		if hv := H / prm.HalvingInterval; hv > 0 {
			if hv > 200 {
				sched.SetInt64(0)
			} else {
				sched.Rsh(sched, uint(hv))
			}
		}
		avail := new(big.Int).Set(bi(prePool.Remain))
		if ops.grants != nil {
			avail.Add(avail, ops.grants)
		}
		intake := sched
		if avail.Cmp(intake) < 0 {
			intake = avail
		}
		wantGoat := new(big.Int).Add(goatDust, intake)
		wantRemain := new(big.Int).Sub(avail, intake)
		if bi(pp.Goat).Cmp(wantGoat) != 0 || bi(pp.Remain).Cmp(wantRemain) != 0 {
			m.viol("block reward does not follow the emission schedule", fmt.Sprintf("height %d interval %d initial %d: expected intake %s (pool %s, remain %s) but pool=%s remain=%s",
				H, prm.HalvingInterval, prm.InitialBlockReward, intake, wantGoat, wantRemain, pp.Goat, pp.Remain))
		}
		wantGas := new(big.Int).Set(gasDust)
		if ops.gas != nil && ops.gas.Sign() > 0 {
			wantGas.Add(wantGas, ops.gas)
		}
		if bi(pp.Gas).Cmp(wantGas) != 0 {
			m.viol("gas revenue not accounted", fmt.Sprintf("expected gas pool %s got %s", wantGas, pp.Gas))
		}
		h.c.Count("emission_checked", 1)
		if avail.Cmp(sched) < 0 {
			h.c.Count("blocks_with_exhausted_grant", 1)
		}
		if H%prm.HalvingInterval == 0 {
			h.c.Count("halving_boundaries_crossed", 1)
		}
	}
}

func votePowers(b *world.Block) []int64 {
	var p []int64
	for _, v := range b.Req.DecidedLastCommit.Votes {
		p = append(p, v.Validator.Power)
	}
	if len(p) > 12 {
		p = p[:12]
	}
	return p
}

func distinctPowers(b *world.Block) int {
	m := map[int64]bool{}
	for _, v := range b.Req.DecidedLastCommit.Votes {
		m[v.Validator.Power] = true
	}
	return len(m)
}

var c12PowerSets = [][]uint64{{4, 1, 1}, {1, 1, 1}, {1, 2, 4}, {1000, 1, 1}, {3, 3, 1}, {7}, {5, 3}, {1, 1, 1, 1, 1, 1, 1}, {100, 99, 98, 97, 1, 1, 1, 1, 1, 1, 1, 1, 1, 1, 1, 1, 1, 1, 1, 1, 1, 1, 1, 1, 1, 1, 1, 1, 1, 1}}

func c12History(c *vc.Ctx, idx int) {
	r := world.NewRand(c.Seed, "c12cfg", idx)
	powers := c12PowerSets[idx%len(c12PowerSets)]
	interval := int64(5 + r.Intn(16))
	initial := []int64{1_000_000_000_000_000_000, 2378234400000000000, 7, 6_000_000_000_000_000_000, 999_999_999_999_999_999}[r.Intn(5)]
	remain := []int64{0, 3, 20, 1000}[r.Intn(4)]
	cfg := lockCfg{Label: "c12", NVals: len(powers), Powers: powers, Blocks: c.Pick(50, 160), Protect0: true, UnknownClaims: idx%5 == 4,
		W: lockWeights{Create: 6, Lock: 25, Unlock: 15, Claim: 35, Grant: 25, Weight: 4, Absent: 5},
		Params: func(p *lockingtypes.Params) {
			p.HalvingInterval = interval
			p.InitialBlockReward = initial
		},
		Genesis: func(g *lockingtypes.GenesisState) {
			g.RewardPool.Remain = math.NewInt(remain).Mul(math.NewIntFromUint64(1e18))
			if idx%4 == 1 { // start with what the design spike used: pools of 6e18
				g.RewardPool.Goat = math.NewIntFromUint64(6e18)
				g.RewardPool.Gas = math.NewIntFromUint64(6e18)
			}
		}}
	h, err := newLockHist(c, cfg, idx)
	if err != nil {
		c.Inconclusive("setup: %v", err)
		return
	}
	defer h.close()
	mon := newC12Mon(h)
	h.crashFn = func(cr *world.ErrCrash) {
		c.Violation("block processing failed during a reward history", cr.Error(), h.replay())
	}
	for b := 0; b < cfg.Blocks; b++ {
		if !h.step() {
			return
		}
		mon.afterBlock()
	}
	c.Sample(map[string]any{"powers": powers, "halving_interval": interval, "initial_block_reward": initial, "genesis_remain_e18": remain, "blocks": cfg.Blocks,
		"last_ops": lastN(h.opsLog, 5), "final_pool": fmt.Sprintf("%+v", h.post.Locking.RewardPool)})
}

func lastN(s []string, n int) []string {
	if len(s) > n {
		return s[len(s)-n:]
	}
	return s
}

func init() {
	vc.Register(&vc.Check{
		ID: "C12", Title: "Rewards are conserved and follow the emission schedule", Level: "exploration",
		Rule: "one case = one history (50/160 blocks) on a validator set with a rounding-hostile power vector (4:1:1, thirds, sevenths, one dominant, 30 validators), halving interval 5..20, initial rewards 7..6e18, " +
			"grants that run out and are refilled, gas revenues, claims (also >16 per block), lock/unlock changing powers; after every commit the monitor checks conservation " +
			"(genesis+grants+gas = pools+accrued+queued+paid), non-negativity, per-validator share within 1+pool*1e-18 of pool*p/P, dust in [0,n*(1+pool*1e-18)], intake = min(remain+grants, initial>>floor(h/interval)), and claim payouts against the queued amounts. " +
			"Non-trivial = a block that distributed a non-empty pool; distinct = (set size, number of distinct powers, halving epoch).",
		Assume: []string{"amounts <= 2^96; the harness plays CometBFT and supplies LastCommit from the validator set of the previous height"},
		Cases:  func(tier string) int { return map[string]int{"quick": 48 + 8, "thorough": 180 + 40}[tier] },
		Run: func(c *vc.Ctx, i int) {
			if base := map[string]int{"quick": 48, "thorough": 180}[c.Tier]; i >= base {
				combinedHistory(c, i-base, "c12x", c.Pick(60, 150), nil, func(h *lockHist) (func(), func()) {
					mon := newC12Mon(h)
					h.crashFn = func(cr *world.ErrCrash) {
						c.Violation("block processing failed during a reward history", cr.Error(), h.replay())
					}
					return mon.afterBlock, nil
				})
				return
			}
			c12History(c, i)
		},
	})
}
