package checks

import (
	"crypto/sha256"
	"encoding/json"
	"fmt"
	"math/big"
	"os"
	"os/exec"
	"path/filepath"
	"regexp"
	"sort"
	"strings"
	"syscall"
	"time"

	cmttypes "github.com/cometbft/cometbft/types"
	"github.com/ethereum/go-ethereum/common"
	"github.com/ethereum/go-ethereum/core/types/goattypes"
	bitcointypes "github.com/goatnetwork/goat/x/bitcoin/types"
	lockingtypes "github.com/goatnetwork/goat/x/locking/types"
	relayertypes "github.com/goatnetwork/goat/x/relayer/types"

	"verif/harness/vc"
	"verif/harness/world"
)

// C07: the same recorded blocks are executed by several replicas that differ in process,
// GOMAXPROCS, build (race detector), restart pattern and crash/re-execution; everything
// CometBFT hashes or acts upon must agree.

func c07Replica(rec string, bin string, mode string, env []string, outFile string) ([]world.Outcome, error) {
	cmd := exec.Command(bin, "-replica", rec, "-mode", mode, "-out", outFile)
	cmd.Env = append(os.Environ(), env...)
	outp, err := cmd.CombinedOutput()
	if err != nil {
		return nil, fmt.Errorf("%v: %s", err, tail(string(outp), 600))
	}
	bz, err := os.ReadFile(outFile)
	if err != nil {
		return nil, err
	}
	var o []world.Outcome
	return o, json.Unmarshal(bz, &o)
}

func tail(s string, n int) string {
	if len(s) > n {
		return s[len(s)-n:]
	}
	return s
}

// c07KillReplica runs the recorded history in a chain of OS processes on one goleveldb directory: each process continues
// from whatever the database holds and kills itself with SIGKILL at the next planned crash point (before FinalizeBlock,
// between FinalizeBlock and Commit, a few hundred microseconds into Commit, right after Commit); the last one runs to the
// end. Returns every outcome any of the processes observed plus complaints about the height found after a crash.
func c07KillReplica(c *vc.Ctx, rec *world.Recording, recFile, bin string, idx int) ([]world.Outcome, []string, error) {
	dir := filepath.Dir(recFile)
	dbDir := filepath.Join(dir, fmt.Sprintf("c07-killdb-%d-%d", c.Seed, idx))
	logFile := recFile + ".r6"
	os.RemoveAll(dbDir)
	os.Remove(logFile)
	defer os.RemoveAll(dbDir)
	defer os.Remove(logFile)
	r := world.NewRand(c.Seed, "c07kill", idx)
	nb := int64(len(rec.Blocks))
	// crash points at increasing heights, every phase represented, hot heights preferred
	var pts []world.KillPoint
	phases := []string{"during", "after", "during", "done", "before", "during"}
	h := int64(1)
	for k := 0; h <= nb && k < c.Pick(10, 24); k++ {
		ph := phases[k%len(phases)]
		if h == 1 && ph == "during" {
			// a kill inside the very first Commit is not planned: the store then holds a half-written version 1 but no commit
			// record, CometBFT (and this harness) re-send InitChain because the application reports height 0, and the SDK's
			// store loads "version 0" of each IAVL tree as its latest saved one - the genesis is then written over leftovers
			// of block 1. That is the dependency's crash consistency before the first commit, not this application's
			// state transition (observed with seed 3: gas used of the block message 147726 vs 105435).
			ph = "after"
		}
		pts = append(pts, world.KillPoint{Height: h, Phase: ph, DelayUS: r.Intn(1 + []int{50, 300, 1500, 6000}[r.Intn(4)])})
		h += int64(1 + r.Intn(int(nb)/c.Pick(8, 20)+1))
	}
	for _, hh := range rec.Hot {
		if r.Intn(3) == 0 && len(pts) < c.Pick(14, 30) {
			ph := []string{"during", "after"}[r.Intn(2)]
			if hh == 1 {
				ph = "after"
			}
			pts = append(pts, world.KillPoint{Height: hh, Phase: ph, DelayUS: r.Intn(2000)})
		}
	}
	if plan := os.Getenv("VERIF_C07_KILLPLAN"); plan != "" {
		// experiments: "h:phase:delay_us,..." replaces the generated plan
		pts = nil
		for _, it := range strings.Split(plan, ",") {
			var kp world.KillPoint
			f := strings.Split(it, ":")
			if len(f) == 3 {
				fmt.Sscan(f[0], &kp.Height)
				kp.Phase = f[1]
				fmt.Sscan(f[2], &kp.DelayUS)
				pts = append(pts, kp)
			}
		}
	}
	sort.SliceStable(pts, func(i, j int) bool { return pts[i].Height < pts[j].Height })
	type planned struct {
		kp     world.KillPoint
		killed bool
	}
	var plan []planned
	run := func(kp *world.KillPoint) (killed bool, err error) {
		args := []string{"-replica", recFile, "-mode", "kill", "-dbdir", dbDir, "-out", logFile}
		if kp != nil {
			args = append(args, "-killat", fmt.Sprintf("%d:%s:%d", kp.Height, kp.Phase, kp.DelayUS))
		}
		cmd := exec.Command(bin, args...)
		cmd.Env = append(os.Environ(), "GOMAXPROCS=4")
		outp, err := cmd.CombinedOutput()
		if err == nil {
			return false, nil
		}
		if ee, ok := err.(*exec.ExitError); ok {
			if ws, ok := ee.Sys().(syscall.WaitStatus); ok && ws.Signaled() && ws.Signal() == syscall.SIGKILL {
				return true, nil
			}
		}
		return false, fmt.Errorf("%v: %s", err, tail(string(outp), 800))
	}
	finished := false
	for _, kp := range pts {
		kp := kp
		killed, err := run(&kp)
		if err != nil {
			return nil, nil, fmt.Errorf("process with crash point %+v: %w", kp, err)
		}
		plan = append(plan, planned{kp, killed})
		if killed {
			c.Count("crashes_by_SIGKILL_"+kp.Phase, 1)
		} else {
			// the point lay behind what the database already held, or the history ended earlier
			finished = true
		}
	}
	if _, err := run(nil); err != nil {
		return nil, nil, fmt.Errorf("final process: %w", err)
	}
	_ = finished
	bz, err := os.ReadFile(logFile)
	if err != nil {
		return nil, nil, err
	}
	var outs []world.Outcome
	var complaints []string
	var lines []world.KillLine
	for _, ln := range strings.Split(string(bz), "\n") {
		if strings.TrimSpace(ln) == "" {
			continue
		}
		var l world.KillLine
		if json.Unmarshal([]byte(ln), &l) != nil {
			continue // a line cut short by the kill
		}
		lines = append(lines, l)
	}
	// per process: start height against what the previous process had reached
	lastOutcome, lastCommitted := int64(0), int64(0)
	sawEnd := false
	for i, l := range lines {
		switch l.Kind {
		case "start":
			if i > 0 {
				// Commit had returned for lastCommitted: it must be there; nothing beyond the last finalised height can be
				if l.Height < lastCommitted {
					complaints = append(complaints, fmt.Sprintf("a restarted node reports height %d although Commit had returned for height %d before the crash", l.Height, lastCommitted))
				}
				if l.Height > lastOutcome {
					complaints = append(complaints, fmt.Sprintf("a restarted node reports height %d although only height %d had been finalised before the crash", l.Height, lastOutcome))
				}
				c.Count("restarts_after_SIGKILL", 1)
				if l.Height == lastOutcome && lastCommitted < lastOutcome {
					c.Count("crashes_inside_Commit_that_kept_the_block", 1)
				}
				if l.Height < lastOutcome {
					c.Count("crashes_that_lost_the_uncommitted_block", 1)
				}
			}
			lastOutcome, lastCommitted = l.Height, l.Height
		case "outcome":
			if l.Outcome != nil {
				outs = append(outs, *l.Outcome)
			}
			lastOutcome = l.Height
		case "committed":
			lastCommitted = l.Height
		case "end":
			sawEnd = true
			if l.Err != "" {
				complaints = append(complaints, "a restarted node could not continue: "+l.Err)
			}
		}
	}
	if !sawEnd {
		return outs, complaints, fmt.Errorf("the final process did not reach the end of the history")
	}
	return outs, complaints, nil
}

func c07History(c *vc.Ctx, idx int) {
	cfg := lockCfg{Label: "c07", NVals: 3 + idx%3, MaxVals: 4, Blocks: c.Pick(36, 110), Protect0: true, Adversarial: true, JumpTime: idx%2 == 1,
		W:         lockWeights{Create: 15, Lock: 50, Unlock: 35, Claim: 15, Grant: 10, Weight: 12, Threshold: 10, Absent: 20, Evidence: 6, DustLock: 10, BigUnlock: 15},
		NRelayers: 4, Relayer: func(g *relayertypes.GenesisState) { g.Params.ElectingPeriod = 20 * time.Second }}
	if idx%4 != 3 {
		// a short halving interval: the quick histories end in the third reward era (halvings = 2 from height 28)
		cfg.Params = func(p *lockingtypes.Params) { p.HalvingInterval = 14 }
	}
	if idx%4 == 3 {
		// a history on the machine's own clock, as on a live network: block times are the wall clock at proposal time and
		// every period (unlock, exit, jail, election, evidence age) lasts a few block intervals, i.e. 150-600 ms. The
		// replicas run seconds later, so a comparison against the node's clock instead of the block time comes out
		// differently there whenever the primary met it before the period had elapsed.
		cfg.RealTime, cfg.Step, cfg.JumpTime, cfg.EvidenceAges = true, 30*time.Millisecond, false, true
		cfg.W.Evidence, cfg.W.Absent = 14, 30
		cfg.Params = func(p *lockingtypes.Params) {
			p.UnlockDuration, p.ExitingDuration, p.DowntimeJailDuration = 200*time.Millisecond, 400*time.Millisecond, 150*time.Millisecond
			p.SignedBlocksWindow, p.MaxMissedPerWindow = 6, 2
		}
		cfg.Relayer = func(g *relayertypes.GenesisState) {
			g.Params.ElectingPeriod, g.Params.AcceptProposerTimeout = 600*time.Millisecond, 250*time.Millisecond
		}
		cfg.Cons = func(cp *cmttypes.ConsensusParams) {
			cp.Evidence.MaxAgeNumBlocks, cp.Evidence.MaxAgeDuration = 3, 400*time.Millisecond
		}
		c.Count("histories_on_the_wall_clock", 1)
	}
	h, err := newLockHist(c, cfg, idx)
	if err != nil {
		c.Inconclusive("setup: %v", err)
		return
	}
	defer h.close()
	h.crashFn = func(cr *world.ErrCrash) {
		c.Inconclusive("FinalizeBlock failed on the primary (reported under C13): %v", cr)
	}
	bm := newBridgeModel(c.Seed, h.ch.W.BtcKey)
	// the bridge workload of C03/C05 as traffic: deposits and withdrawals in every stage, with every perturbation those
	// checks use (wrong headers, proofs, scripts, fees, ids in other states ...), so that failing bridge messages are
	// followed by later uses of the same heights, ids and batches. Their own oracles are not reported here.
	bh := newBridgeHist(h)
	bh.quiet = true
	wm := newWdMon(bh)
	muts := c03Mutators()
	var addrPool []addrCase
	for _, ac := range c17AddrCases(c.Seed, 17000+idx, 1, regtest) {
		if ac.Str != "" && ac.Expect != 2 {
			addrPool = append(addrPool, ac)
		}
	}
	expectOf := map[string]addrCase{}
	for _, ac := range addrPool {
		expectOf[ac.Str] = ac
	}
	wm.classify = func(a string) []byte {
		if ac, ok := expectOf[a]; ok {
			if ac.Expect == 1 {
				return ac.Script
			}
			return nil
		}
		sc, _, err := scriptOfAddress(a)
		if err != nil {
			return nil
		}
		return sc
	}
	var hot []int64
	primary := map[int64]world.Outcome{}
	for b := 0; b < cfg.Blocks && !h.failed; b++ {
		// hostile extras on top of the random locking workload
		extraHot := false
		multiHot := false
		if b%4 == 1 {
			// a lock batch over several validators, one of which does not exist (or an unknown token for
			// a candidate): the batch fails part-way, and how far it gets must not depend on map order
			extraHot = true
		}
		if b%5 == 2 {
			// relayer messages: a valid block-hash vote, an invalid one, a malformed deposit batch
			g, err := h.ch.Group()
			if err == nil {
				num, seq, _ := h.ch.Account(g.Proposer.Addr)
				var txs [][]byte
				bad, _ := bm.payload("consolidation", g.Proposer.AddrStr, b)
				v2, _ := h.ch.QuorumVote(g, bad)
				v2.Sequence += 7
				setVote(bad, v2)
				dep := &bitcointypes.MsgNewDeposits{Proposer: g.Proposer.AddrStr, BlockHeaders: []*bitcointypes.BlockHeader{{Height: 1, Raw: make([]byte, 80)}},
					Deposits: []*bitcointypes.Deposit{{Version: 0, BlockNumber: 1, TxIndex: 1, NoWitnessTx: make([]byte, 100), EvmAddress: make([]byte, 20), RelayerPubkey: h.ch.W.BtcKey}}}
				// a deposit batch with several headers and items that are wrong in different ways (stale hash of a
				// voted height, height never voted, undecodable tx): whichever is met first must not depend on map order
				mk := func(h uint64, tag int) *bitcointypes.BlockHeader {
					raw := append(world.Derive(c.Seed, "c07hdr", b*10+tag), world.Derive(c.Seed, "c07hdr2", b*10+tag)...)
					return &bitcointypes.BlockHeader{Height: h, Raw: append(raw, make([]byte, 16)...)}
				}
				multi := &bitcointypes.MsgNewDeposits{Proposer: g.Proposer.AddrStr,
					BlockHeaders: []*bitcointypes.BlockHeader{mk(1, 1), mk(bm.tip+40, 2), mk(2, 3), mk(bm.tip+41, 4)}}
				for k, hh := range []uint64{bm.tip + 40, 2, 1, bm.tip + 41} {
					multi.Deposits = append(multi.Deposits, &bitcointypes.Deposit{Version: uint32(k % 2), BlockNumber: hh, TxIndex: uint32(k), NoWitnessTx: make([]byte, 100+k), EvmAddress: make([]byte, 20), RelayerPubkey: h.ch.W.BtcKey})
				}
				multiHot = true
				for i, m := range []sdkMsg{bad, dep, multi} {
					raw, err := h.ch.W.SignTx(world.TxSpec{Msgs: []sdkMsg{m}, Priv: g.Proposer.Tx, AccNum: num, Seq: seq + uint64(i)})
					if err == nil {
						txs = append(txs, raw)
					}
				}
				h.ch.Inject(txs...)
			}
		}
		relHot := b == 6 || b == 21 || b == 33
		hotBatch := func(o *blockOps) {
			if relHot {
				// removal requests for every voter of the relayer group in one block (shuffled), with an add request for a
				// fresh address in between: which removals are still admissible when the minimum is reached, and the order
				// in which members are queued for removal, must not depend on a map order
				if g, err := h.ch.Group(); err == nil && len(g.Voters) >= 2 {
					var rms []*goattypes.RemoveVoterRequest
					for _, v := range g.Voters {
						if v != nil {
							rms = append(rms, &goattypes.RemoveVoterRequest{Voter: common.BytesToAddress(v.Addr)})
						}
					}
					if b != 6 {
						rms = append(rms, &goattypes.RemoveVoterRequest{Voter: common.BytesToAddress(g.Proposer.Addr)})
					}
					h.r.Shuffle(len(rms), func(i, j int) { rms[i], rms[j] = rms[j], rms[i] })
					o.Reqs.Relayer.Removes = append(o.Reqs.Relayer.Removes, rms...)
					nm := world.NewMember(c.Seed, fmt.Sprintf("c07-newvoter-%d", idx), b)
					kh := sha256.Sum256(nm.BLSPub)
					o.Reqs.Relayer.Adds = append(o.Reqs.Relayer.Adds, &goattypes.AddVoterRequest{Voter: common.BytesToAddress(nm.Addr), Pubkey: common.BytesToHash(kh[:])})
					o.Desc = append(o.Desc, fmt.Sprintf("hot relayer batch: %d removals (shuffled) and one add", len(rms)))
					c.Count("hot_relayer_removal_batches", 1)
				}
			}
			if !extraHot {
				return
			}
			var ls []*goattypes.LockRequest
			for vi, v := range h.vals {
				if v.Created && len(ls) < 5 {
					ls = append(ls, &goattypes.LockRequest{Validator: v.Addr, Token: h.tokens[vi%2], Amount: new(big.Int).Mul(pow10(17), big.NewInt(int64(3+vi)))})
				}
			}
			if b%8 == 1 {
				ls = append(ls, &goattypes.LockRequest{Validator: common.HexToAddress("0x00000000000000000000000000000000000000bb"), Token: tokBTC, Amount: bigOne()})
			} else {
				ls = append(ls, &goattypes.LockRequest{Validator: h.vals[0].Addr, Token: tokUnk, Amount: bigOne()})
			}
			h.r.Shuffle(len(ls), func(i, j int) { ls[i], ls[j] = ls[j], ls[i] })
			o.Reqs.Locking.Locks = append(o.Reqs.Locking.Locks, ls...)
			o.locks = append(o.locks, ls...)
			o.Desc = append(o.Desc, fmt.Sprintf("hot lock batch over %d validators with one failing entry", len(ls)))
		}
		if b%5 == 2 || h.ch.Height == 0 {
			h.extra = hotBatch
			if !h.step() {
				break
			}
			h.extra = nil
		} else {
			if !bh.refreshGroup() {
				break
			}
			c03Gen(bh, b, muts)
			c05Gen(wm, b, cfg.Blocks, idx, addrPool)
			bh.extraLocking = hotBatch
			if !bh.runBlock() {
				break
			}
		}
		blk := h.blk
		primary[blk.Height] = world.OutcomeOf(blk.Height, blk.Resp, blk.ELCalls, nil)
		failing := 0
		for _, t := range blk.Resp.TxResults {
			if t.Code != 0 {
				failing++
			}
		}
		leaving := 0
		for _, u := range blk.Resp.ValidatorUpdates {
			if u.Power == 0 {
				leaving++
			}
		}
		if extraHot || multiHot || relHot || leaving >= 2 {
			hot = append(hot, blk.Height)
		}
		if failing > 0 || extraHot || leaving >= 2 {
			c.Nontrivial("failing_txs=%d hot_lock_batch=%v validators_leaving=%d txs=%d block_message=%s", failing, extraHot, leaving, len(blk.Resp.TxResults), failClass(blk.Resp.TxResults[0].Log))
		}
		if failing > 0 {
			c.Count("blocks_with_failing_transactions", 1)
		}
	}
	if len(h.ch.Blocks) == 0 {
		c.Inconclusive("no blocks recorded")
		return
	}
	rec, err := h.ch.Recording(hot)
	if err != nil {
		c.Inconclusive("recording: %v", err)
		return
	}
	dir := os.Getenv("VERIF_SCRATCH")
	if dir == "" {
		dir = os.TempDir()
	}
	recFile := filepath.Join(dir, fmt.Sprintf("c07-rec-%d-%d.json", c.Seed, idx))
	if err := rec.Save(recFile); err != nil {
		c.Inconclusive("save recording: %v", err)
		return
	}
	if os.Getenv("VERIF_C07_KEEPREC") == "" {
		defer os.Remove(recFile)
	}
	self, _ := os.Executable()
	raceBin := os.Getenv("VERIF_BIN_RACE")
	// the replicas start after the primary has finished: a wall-clock value that leaked into
	// state or results at second resolution differs between them
	time.Sleep(1100 * time.Millisecond)
	type rep struct {
		name string
		run  func() ([]world.Outcome, error)
	}
	reps := []rep{
		{"R1 same process, fresh node", func() ([]world.Outcome, error) { return world.Replay(rec, "fresh") }},
		{"R2 other process, GOMAXPROCS=1", func() ([]world.Outcome, error) {
			return c07Replica(recFile, self, "fresh", []string{"GOMAXPROCS=1"}, recFile+".r2")
		}},
		{"R4 goleveldb node restarted before every block", func() ([]world.Outcome, error) { return world.Replay(rec, "restart") }},
		{"R5 every block executed twice around a crash before Commit (hot blocks 16x)", func() ([]world.Outcome, error) {
			return c07Replica(recFile, self, "twice", []string{"GOMAXPROCS=4"}, recFile+".r5")
		}},
	}
	if raceBin != "" && (idx%3 == 0 || c.Thorough()) {
		reps = append(reps, rep{"R3 other process, race-detector build, GOMAXPROCS=16", func() ([]world.Outcome, error) {
			return c07Replica(recFile, raceBin, "fresh", []string{"GOMAXPROCS=16", "GORACE=halt_on_error=0"}, recFile+".r3")
		}})
	}
	if raceBin != "" && (idx%3 == 1 || c.Thorough()) {
		name := "R7 other process, race-detector build, busy with concurrent CheckTx, simulations and queries"
		reps = append(reps, rep{name, func() ([]world.Outcome, error) {
			logBase := recFile + ".race"
			outs, err := c07Replica(recFile, raceBin, "busy", []string{"GOMAXPROCS=16", "GORACE=halt_on_error=0 exitcode=0 log_path=" + logBase}, recFile+".r7")
			if bz, e := os.ReadFile(recFile + ".r7.busy"); e == nil {
				var st map[string]int64
				if json.Unmarshal(bz, &st) == nil {
					c.Count("concurrent_check_tx_next_to_block_execution", int(st["check_tx"]))
					c.Count("concurrent_simulations_next_to_block_execution", int(st["simulations"]))
					c.Count("concurrent_simulations_that_ran_their_handlers", int(st["simulations_ok"]))
					c.Count("concurrent_queries_next_to_block_execution", int(st["queries"]))
				}
			}
			os.Remove(recFile + ".r7")
			os.Remove(recFile + ".r7.busy")
			logs, _ := filepath.Glob(logBase + ".*")
			seen := map[string]bool{}
			for _, lf := range logs {
				bz, _ := os.ReadFile(lf)
				os.Remove(lf)
				for _, blk := range strings.Split(string(bz), "==================") {
					if !strings.Contains(blk, "WARNING: DATA RACE") {
						continue
					}
					key, inGoat, inBlockExec := c07RaceKey(blk)
					if seen[key] {
						continue
					}
					seen[key] = true
					if inGoat && inBlockExec {
						c.Violation("data race between block execution and concurrent CheckTx/simulation/query: "+key,
							"the outcome of block execution depends on how the goroutines are scheduled; race detector report:\n"+head(blk, 6000), map[string]any{"history": h.replay(), "replica": name})
					} else {
						c.Count("race_reports_outside_goat_block_execution", 1)
					}
				}
			}
			return outs, err
		}})
	}
	disagreed := false
	for _, rp := range reps {
		outs, err := rp.run()
		os.Remove(recFile + ".r2")
		os.Remove(recFile + ".r3")
		os.Remove(recFile + ".r5")
		if err != nil {
			c.Inconclusive("replica %q could not run: %v", rp.name, err)
			continue
		}
		c.Count("replica_runs", 1)
		for _, o := range outs {
			c.Eval(1)
			p, ok := primary[o.Height]
			if !ok {
				continue
			}
			c.Count("block_executions_compared", 1)
			if o.Key() == p.Key() {
				continue
			}
			what := c07Diff(p, o)
			c.Violation("replicas disagree on "+what.field, fmt.Sprintf("height %d, %s (repeat %d): primary %s, replica %s", o.Height, rp.name, o.Repeat, what.a, what.b),
				map[string]any{"history": h.replay(), "height": o.Height, "replica": rp.name})
			disagreed = true
			break
		}
		if disagreed {
			// one disagreement settles this history; the remaining replicas would re-execute a history that is already
			// known to depend on where it runs (and a process-local state that grows with every execution may make them crawl)
			c.Count("histories_settled_by_the_first_disagreeing_replica", 1)
			return
		}
	}
	if idx%2 == 0 || c.Thorough() {
		name := "R6 chain of processes on one goleveldb directory, each killed with SIGKILL at a planned crash point"
		outs, complaints, err := c07KillReplica(c, rec, recFile, self, idx)
		if err != nil {
			c.Inconclusive("replica %q could not run: %v", name, err)
		} else {
			c.Count("replica_runs", 1)
			for _, cm := range complaints {
				c.Violation("state found after a process kill is not a committed state of the history", cm, map[string]any{"history": h.replay(), "replica": name})
			}
			for _, o := range outs {
				c.Eval(1)
				p, ok := primary[o.Height]
				if !ok {
					continue
				}
				c.Count("block_executions_compared", 1)
				c.Count("block_executions_compared_after_kills", 1)
				if o.Key() == p.Key() {
					continue
				}
				what := c07Diff(p, o)
				c.Violation("replicas disagree on "+what.field, fmt.Sprintf("height %d, %s: primary %s, replica %s", o.Height, name, what.a, what.b),
					map[string]any{"history": h.replay(), "height": o.Height, "replica": name})
				break
			}
		}
	}
	c.Sample(map[string]any{"blocks": len(rec.Blocks), "hot_heights": hot, "replicas": len(reps), "validators": len(h.vals), "last_ops": lastN(h.opsLog, 3)})
}

// c07RaceKey summarises one race-detector report. An access is goat's own when the code that touches the memory is goat
// code: walking down the access stack from the top, frames of the standard library and of generic helper libraries are
// skipped, and the first other frame must lie in github.com/goatnetwork/goat. Accesses made inside the SDK's stores, IAVL
// or the signing context on behalf of a goat handler are not goat's own (checkState reads next to FinalizeBlock's
// working-hash writes are the SDK's business and cannot change a block's outcome). inBlockExec: one of the two
// accesses happens under FinalizeBlock or Commit.
func c07RaceKey(blk string) (key string, inGoat, inBlockExec bool) {
	var tops []string
	frameRe := regexp.MustCompile(`(?m)^\s+([A-Za-z0-9_./~-]+(?:\.\([^)]*\))?[A-Za-z0-9_.]*(?:\[[^\]]*\])?(?:\.func[0-9.]+)?)\(`)
	generic := func(fn string) bool {
		first := fn
		if i := strings.Index(fn, "/"); i >= 0 {
			first = fn[:i]
		} else if j := strings.Index(fn, "."); j >= 0 {
			first = fn[:j] // "runtime.slicecopy": a package without a path
		}
		if !strings.Contains(first, ".") {
			return true // standard library, runtime
		}
		for _, p := range []string{"github.com/hashicorp/golang-lru", "golang.org/x/", "github.com/btcsuite/", "github.com/ethereum/go-ethereum/common", "github.com/supranational/blst", "github.com/holiman/uint256", "github.com/decred/"} {
			if strings.HasPrefix(fn, p) {
				return true
			}
		}
		return false
	}
	for _, sec := range regexp.MustCompile(`\n(?:Previous )?(?:[Rr]ead|[Ww]rite|atomic [a-z]+) at [^\n]*\n`).Split(blk, -1)[1:] {
		if i := strings.Index(sec, "\n\n"); i >= 0 {
			sec = sec[:i] // an access stack ends at the first blank line
		}
		if strings.Contains(sec, "baseapp.(*BaseApp).FinalizeBlock") || strings.Contains(sec, "baseapp.(*BaseApp).internalFinalizeBlock") || strings.Contains(sec, "baseapp.(*BaseApp).Commit") {
			inBlockExec = true
		}
		for _, m := range frameRe.FindAllStringSubmatch(sec, -1) {
			if generic(m[1]) {
				continue
			}
			if strings.HasPrefix(m[1], "github.com/goatnetwork/goat/") {
				inGoat = true
				tops = append(tops, m[1])
			}
			break
		}
	}
	sort.Strings(tops)
	key = strings.Join(tops, " <-> ")
	if key == "" {
		key = "no access in goat code"
	}
	return
}

type c07d struct{ field, a, b string }

func c07Diff(p, o world.Outcome) c07d {
	if p.Err != o.Err {
		return c07d{"FinalizeBlock success", p.Err, o.Err}
	}
	if len(p.Txs) != len(o.Txs) {
		return c07d{"number of transaction results", fmt.Sprint(len(p.Txs)), fmt.Sprint(len(o.Txs))}
	}
	for i := range p.Txs {
		if p.Txs[i] != o.Txs[i] {
			f := "a transaction result"
			pa, oa := strings.Fields(p.Txs[i]), strings.Fields(o.Txs[i])
			if len(pa) == len(oa) {
				for k := range pa {
					if pa[k] != oa[k] {
						f = "transaction result field " + strings.SplitN(pa[k], "=", 2)[0] + map[bool]string{true: " of the block message", false: ""}[i == 0]
						break
					}
				}
			}
			return c07d{f, fmt.Sprintf("tx %d: %s", i, p.Txs[i]), o.Txs[i]}
		}
	}
	if strings.Join(p.Updates, ",") != strings.Join(o.Updates, ",") {
		return c07d{"the set of validator updates", fmt.Sprint(p.Updates), fmt.Sprint(o.Updates)}
	}
	if strings.Join(p.Calls, ";") != strings.Join(o.Calls, ";") {
		return c07d{"engine calls", fmt.Sprint(p.Calls), fmt.Sprint(o.Calls)}
	}
	return c07d{"application hash", p.AppHash, o.AppHash}
}

func init() {
	vc.Register(&vc.Check{
		ID: "C07", Title: "State transition is deterministic across replicas, re-execution and restart", Level: "exploration",
		Rule: "one case = one adversarial history (36/110 blocks: random locking requests incl. unknown validators/tokens, every 4th block a lock batch over 3..6 validators with one failing entry in shuffled order, every 5th block valid/invalid/malformed relayer messages incl. a deposit batch with four headers and items that are wrong in different ways, evidence, churn) recorded once on a primary and re-executed by replicas: " +
			"R1 fresh node in the same process, R2 another OS process with GOMAXPROCS=1, R3 another process built with the race detector at GOMAXPROCS=16, R4 a goleveldb node closed and reopened before every block, R5 every block finalised, crashed before Commit, reopened and finalised again (blocks driving the map-ordered loops: 16 such rounds), R6 (every second history) a chain of OS processes on one goleveldb directory, each killing itself with SIGKILL at a planned crash point (before FinalizeBlock, between FinalizeBlock and Commit, 0-6000 us into Commit, right after Commit) and the next one continuing from whatever the disk holds - the height found after a kill must lie between the last height whose Commit had returned and the last finalised height, R7 (every third history) a process built with the race detector that executes the blocks while other goroutines check transactions, simulate them (handlers included) and answer queries - a race report whose access is goat's own and that involves FinalizeBlock/Commit is a violation; " +
			"compared per height: app hash, every tx's code/codespace/data/gas wanted/gas used, validator updates as a set, engine calls (method + arguments). Replicas start >= 1.1 s after the primary; every fourth history runs on the machine's clock (block time = wall clock at proposal, unlock/exit/jail/election/evidence periods of 150-600 ms). Non-trivial = a block with a failing transaction, a hot lock batch or >= 2 validators leaving; distinct = (failing txs, hot, leaving, txs).",
		Assume: []string{"no clock virtualisation for Go binaries here: dependence on the node's clock is provoked by running every fourth history on the wall clock with periods of a few hundred milliseconds and the replicas seconds later; a dependence on clock fields coarser than that delay is out of reach", "map-order dependence is exposed only with the probability Go's per-loop randomisation gives: >= 17 executions of every hot block"},
		Cases:  func(tier string) int { return map[string]int{"quick": 12, "thorough": 80}[tier] },
		Run:    func(c *vc.Ctx, i int) { c07History(c, i) },
	})
}

func head(s string, n int) string {
	if len(s) > n {
		return s[:n]
	}
	return s
}
