package checks

import (
	"errors"
	"fmt"
	"math/big"
	"math/rand"
	"sort"
	"time"

	"cosmossdk.io/math"
	abci "github.com/cometbft/cometbft/abci/types"
	cmtsecp "github.com/cometbft/cometbft/crypto/secp256k1"
	cmttypes "github.com/cometbft/cometbft/types"
	"github.com/cosmos/cosmos-sdk/crypto/keys/secp256k1"
	sdk "github.com/cosmos/cosmos-sdk/types"
	"github.com/ethereum/go-ethereum/common"
	"github.com/ethereum/go-ethereum/core/types/goattypes"
	ethcrypto "github.com/ethereum/go-ethereum/crypto"
	bitcointypes "github.com/goatnetwork/goat/x/bitcoin/types"
	goatxtypes "github.com/goatnetwork/goat/x/goat/types"
	lockingtypes "github.com/goatnetwork/goat/x/locking/types"
	relayertypes "github.com/goatnetwork/goat/x/relayer/types"

	"verif/harness/vc"
	"verif/harness/world"
)

// Shared workload for the locking-module properties (C11-C15): a random history of
// execution-layer locking requests, vote records and evidence, executed by the real
// application, with ground-truth logs the per-property monitors judge.

var (
	tokBTC  = common.Address{}
	tokGOAT = goattypes.GoatTokenContract
	tokX    = common.HexToAddress("0x00000000000000000000000000000000000000e1")
	tokUnk  = common.HexToAddress("0x00000000000000000000000000000000000000ff") // never registered
)

func denomOf(a common.Address) string {
	switch a {
	case tokBTC:
		return "btc"
	case tokGOAT:
		return "goat"
	}
	return fmt.Sprintf("tkn:%x", a.Bytes())
}

type lockWeights struct {
	Create, Lock, Unlock, Claim, Grant, Weight, Threshold, Absent, Evidence int
	DustLock, BigUnlock                                                     int
}

type lockCfg struct {
	Label          string
	NVals          int
	Powers         []uint64
	MaxVals        int64
	Blocks         int
	W              lockWeights
	Adversarial    bool                             // unknown validators/tokens, duplicate ids, bad creates
	Bitcoin        func(*bitcointypes.GenesisState) // tune the bridge module's genesis (network name ...)
	UnknownClaims  bool                             // claim lists that end with a claim for a validator that does not exist
	Params         func(*lockingtypes.Params)
	Genesis        func(*lockingtypes.GenesisState)
	Cons           func(*cmttypes.ConsensusParams)
	Relayer        func(*relayertypes.GenesisState)
	NRelayers      int
	NNodes         int
	MempoolMax     int
	RealTime       bool // see world.Config.RealTime
	DiskDB         bool
	Rotate         bool
	StepOpts       func(*world.StepOpts)
	Step           time.Duration
	JumpTime       bool             // occasional large block-time steps
	TimeEdges      bool             // block times placed 1 s / 1 ns before, exactly at and 1 ns / 1 s after the next unlock maturity or jail end
	TargetPunished bool             // lock/unlock requests prefer jailed and tombstoned validators
	EvidenceAges   bool             // evidence height and time ages are drawn independently around the limits
	HugeWeights    bool             // token weights up to 2^62 (total voting power must still stay acceptable)
	Protect0       bool             // validator 0 (the node's own) is never punished or pushed below a threshold
	ExtraAccounts  []sdk.AccAddress // accounts that exist at genesis besides validators and relayer members
}

// splitLock is a directed scenario: a fresh validator gets its whole power from one token in two or three locks whose
// power shares are truncated one by one (1.6 + 1.6 units give 1 + 1), then unlocks the sum (3.2 units are worth 3).
type splitLock struct {
	vi, stage, wait int
	tok             common.Address
}

type hVal struct {
	Key     world.ValKey
	Addr    common.Address
	Created bool // exists on chain (genesis or successful create)
	Genesis bool
}

type unlockRec struct {
	ID        uint64
	Val       int
	Token     common.Address
	Requested *big.Int
	ReqTime   time.Time
	ReqHeight int64
	Applied   bool
	// from snapshots
	Queued      *big.Int  // amount the module queued
	Maturity    time.Time // key it was queued under
	HoldBefore  *big.Int
	ExitingPre  bool // validator was inactive/tombstoned before the request, by the pre-block snapshot
	BelowThresh bool // remaining holding after this unlock is below the token threshold (ground truth from pre snapshot)
	Delivered   int
	DelHeight   int64
	DelTime     time.Time
	DelAmount   *big.Int
}

type claimRec struct {
	ID        uint64
	Val       int
	Applied   bool
	Goat, Gas *big.Int // queued amounts
	Delivered int
	DelGoat   *big.Int
	DelGas    *big.Int
}

type blockOps struct {
	Reqs     world.Requests
	Absent   map[string]bool
	NilVote  map[string]bool
	Evidence []abci.Misbehavior
	Dt       time.Duration
	Desc     []string
	unlocks  []*unlockRec
	claims   []*claimRec
	creates  []int
	locks    []*goattypes.LockRequest
	grants   *big.Int
	gas      *big.Int
}

type lockHist struct {
	hugeUnjail map[string]bool
	overBound  *common.Address // a token whose weight was just made huge: the next block locks 2^96 of it (over the power bound)
	split      *splitLock      // directed scenario in progress: power granted in pieces, taken back in one go
	memberVal  bool            // a validator with a relayer voter's key has been created
	c          *vc.Ctx
	cfg        lockCfg
	r          *rand.Rand
	ch         *world.Chain
	vals       []*hVal
	// ground truth
	unlocks   map[uint64]*unlockRec
	claims    map[uint64]*claimRec
	nextUID   uint64
	nextCID   uint64
	delivered []world.SysTx
	absentRun map[int]int // validator -> remaining blocks of absence
	nilRun    map[int]int // validator -> remaining blocks of nil precommits (present in the round, not voting for the block)
	opsLog    []string
	pre, post *world.Snap
	blk       *world.Block
	ops       *blockOps
	tokens    []common.Address
	failed    bool
	vsetEnded bool // CometBFT refused this block's validator updates (judged by C13): the chain cannot go on from here
	crashFn   func(*world.ErrCrash)
	extra     func(*blockOps) // lets a check add requests to the generated block
	hookAfter func(*world.Block)
	prevNext  *cmttypes.ValidatorSet // CometBFT's next validator set before the current block's updates
	rejectFn  func(*world.ErrRejected)
}

func (h *lockHist) logf(format string, a ...any) {
	h.opsLog = append(h.opsLog, fmt.Sprintf("h=%d ", h.ch.Height+1)+fmt.Sprintf(format, a...))
}

// replay returns the operations so far (for replay files).
func (h *lockHist) replay() any {
	l := h.opsLog
	if len(l) > 400 {
		l = l[len(l)-400:]
	}
	return map[string]any{"label": h.cfg.Label, "ops": l}
}

func uncompressed64(k world.ValKey) [64]byte {
	up, err := ethcrypto.DecompressPubkey(k.Priv.PubKey().Bytes())
	if err != nil {
		panic(err)
	}
	var pk [64]byte
	copy(pk[:], ethcrypto.FromECDSAPub(up)[1:])
	return pk
}

func newLockHist(c *vc.Ctx, cfg lockCfg, idx int) (*lockHist, error) {
	return newLockHistSchnorr(c, cfg, idx, false)
}

func newLockHistSchnorr(c *vc.Ctx, cfg lockCfg, idx int, schnorrKey bool) (*lockHist, error) {
	h := &lockHist{c: c, cfg: cfg, r: world.NewRand(c.Seed, "lockhist/"+cfg.Label, idx), unlocks: map[uint64]*unlockRec{}, claims: map[uint64]*claimRec{}, absentRun: map[int]int{}}
	h.tokens = []common.Address{tokBTC, tokGOAT, tokX}
	one := math.NewIntFromUint64(1e18)
	w, err := world.New(world.Config{Seed: c.Seed, Label: fmt.Sprintf("%s-%d", cfg.Label, idx), Schnorr: schnorrKey, DiskDB: cfg.DiskDB, NVals: cfg.NVals, NNodes: cfg.NNodes, MempoolMax: cfg.MempoolMax, RealTime: cfg.RealTime, Powers: cfg.Powers, Cons: cfg.Cons, Relayer: cfg.Relayer, NRelayers: cfg.NRelayers, ExtraAccounts: cfg.ExtraAccounts, Bitcoin: cfg.Bitcoin,
		Locking: func(g *lockingtypes.GenesisState) {
			if cfg.MaxVals > 0 {
				g.Params.MaxValidators = cfg.MaxVals
			}
			g.Tokens = []*lockingtypes.TokenGenesis{
				{Denom: "btc", Token: lockingtypes.Token{Weight: 1, Threshold: one}},
				{Denom: "goat", Token: lockingtypes.Token{Weight: 2, Threshold: math.ZeroInt()}},
				{Denom: denomOf(tokX), Token: lockingtypes.Token{Weight: 0, Threshold: math.ZeroInt()}},
			}
			if cfg.Params != nil {
				cfg.Params(&g.Params)
			}
			if cfg.Genesis != nil {
				cfg.Genesis(g)
			}
		}})
	if err != nil {
		return nil, err
	}
	ch, err := world.NewChain(w)
	if err != nil {
		w.Cleanup()
		return nil, err
	}
	if cfg.Step > 0 {
		ch.Step0 = cfg.Step
	}
	h.ch = ch
	ch.Rotate = cfg.Rotate
	for i := 0; i < cfg.NVals; i++ {
		h.vals = append(h.vals, &hVal{Key: w.Vals[i], Addr: common.BytesToAddress(w.Vals[i].Cons), Created: true, Genesis: true})
	}
	h.post, err = w.GenesisSnap()
	if err != nil {
		ch.Close()
		return nil, err
	}
	return h, nil
}

func (h *lockHist) close() { h.ch.Close() }

func (h *lockHist) pickVal(createdOnly bool) int {
	if h.cfg.TargetPunished && h.r.Intn(2) == 0 {
		var cand []int
		for i, v := range h.vals {
			if pv := h.post.Validator(v.Key.Cons); pv != nil && (pv.Status == lockingtypes.Downgrade || pv.Status == lockingtypes.Tombstoned) {
				cand = append(cand, i)
			}
		}
		if len(cand) > 0 {
			return cand[h.r.Intn(len(cand))]
		}
	}
	for try := 0; try < 20; try++ {
		i := h.r.Intn(len(h.vals))
		if !createdOnly || h.vals[i].Created {
			return i
		}
	}
	return 0
}

func pow10(n int) *big.Int { return new(big.Int).Exp(big.NewInt(10), big.NewInt(int64(n)), nil) }

func (h *lockHist) holding(s *world.Snap, vi int, tok common.Address) *big.Int {
	v := s.Validator(h.vals[vi].Key.Cons)
	if v == nil {
		return new(big.Int)
	}
	return v.Locking.AmountOf(denomOf(tok)).BigInt()
}

func (h *lockHist) token(s *world.Snap, tok common.Address) *lockingtypes.Token {
	for _, t := range s.Locking.Tokens {
		if t.Denom == denomOf(tok) {
			return &t.Token
		}
	}
	return nil
}

func (h *lockHist) lockAmount(tok common.Address) *big.Int {
	t := h.token(h.post, tok)
	e18 := pow10(18)
	choices := []*big.Int{big.NewInt(1), big.NewInt(1000), new(big.Int).Set(e18), new(big.Int).Mul(e18, big.NewInt(int64(1+h.r.Intn(50)))),
		new(big.Int).Sub(e18, big.NewInt(1)), new(big.Int).Add(e18, big.NewInt(1))}
	if t != nil {
		if t.Weight >= 1 {
			q := new(big.Int).Div(e18, new(big.Int).SetUint64(t.Weight))
			choices = append(choices, q, new(big.Int).Sub(q, big.NewInt(1)), new(big.Int).Add(q, big.NewInt(1)))
			// fractions of a power unit: what several locks add up to in power (each truncated) differs from what their sum
			// is worth when it is unlocked in one go
			choices = append(choices, new(big.Int).Div(new(big.Int).Mul(q, big.NewInt(8)), big.NewInt(5)), new(big.Int).Div(new(big.Int).Mul(q, big.NewInt(3)), big.NewInt(5)),
				new(big.Int).Sub(new(big.Int).Mul(q, big.NewInt(2)), big.NewInt(1)), new(big.Int).Div(new(big.Int).Mul(q, big.NewInt(8)), big.NewInt(5)))
		}
		th := t.Threshold.BigInt()
		if th.Sign() > 0 {
			choices = append(choices, new(big.Int).Set(th), new(big.Int).Sub(th, big.NewInt(1)), new(big.Int).Add(th, big.NewInt(1)))
		}
	}
	if h.r.Intn(40) == 0 {
		choices = append(choices, new(big.Int).Lsh(big.NewInt(1), 96))
	}
	if h.cfg.W.DustLock > 0 && h.r.Intn(100) < h.cfg.W.DustLock {
		return big.NewInt(int64(1 + h.r.Intn(1000)))
	}
	a := choices[h.r.Intn(len(choices))]
	if a.Sign() < 0 {
		// 10^18/weight - 1 for a weight above 10^18: amounts are unsigned on the wire
		a = big.NewInt(1)
	}
	return a
}

func (h *lockHist) unlockAmount(vi int, tok common.Address, already *big.Int) *big.Int {
	hold := new(big.Int).Sub(h.holding(h.post, vi, tok), already)
	if hold.Sign() < 0 {
		hold = new(big.Int)
	}
	t := h.token(h.post, tok)
	th := new(big.Int)
	if t != nil {
		th = t.Threshold.BigInt()
	}
	room := new(big.Int).Sub(hold, th)
	choices := []*big.Int{big.NewInt(1), new(big.Int).Set(hold), new(big.Int).Add(hold, big.NewInt(1)), pow10(18), new(big.Int).Mul(pow10(18), big.NewInt(int64(1+h.r.Intn(20))))}
	if room.Sign() > 0 {
		choices = append(choices, room, new(big.Int).Add(room, big.NewInt(1)), new(big.Int).Sub(room, big.NewInt(1)), new(big.Int).Div(room, big.NewInt(2)))
	}
	if h.cfg.Protect0 && vi == 0 {
		// stay above the threshold
		if room.Sign() <= 0 {
			return nil
		}
		return new(big.Int).Div(room, big.NewInt(int64(2+h.r.Intn(3))))
	}
	if h.cfg.W.BigUnlock > 0 && h.r.Intn(100) < h.cfg.W.BigUnlock {
		return new(big.Int).Add(hold, big.NewInt(int64(h.r.Intn(3))))
	}
	a := choices[h.r.Intn(len(choices))]
	if a.Sign() < 0 {
		a = big.NewInt(1)
	}
	return a
}

// gen produces the operations of the next block.
func (h *lockHist) gen() *blockOps {
	o := &blockOps{Absent: map[string]bool{}, NilVote: map[string]bool{}}
	w := h.cfg.W
	roll := func(p int) bool { return p > 0 && h.r.Intn(100) < p }
	adv := h.cfg.Adversarial
	if roll(w.Create) {
		n := 1 + h.r.Intn(2)
		for i := 0; i < n; i++ {
			k := world.NewValKey(h.c.Seed, h.cfg.Label+"/created", len(h.vals)*1000+h.r.Intn(1000))
			v := &hVal{Key: k, Addr: common.BytesToAddress(k.Cons)}
			h.vals = append(h.vals, v)
			o.Reqs.Locking.Creates = append(o.Reqs.Locking.Creates, &goattypes.CreateRequest{Validator: v.Addr, Pubkey: uncompressed64(k)})
			o.creates = append(o.creates, len(h.vals)-1)
			o.Desc = append(o.Desc, fmt.Sprintf("create v%d", len(h.vals)-1))
		}
		if nm := len(h.ch.W.Members); nm >= 1 && !h.memberVal && roll(15) {
			// a validator whose account already exists (it is a relayer voter's): the record is created but parked
			// inactive, and whatever is locked to it later stays without voting power
			m := h.ch.W.Members[nm-1]
			p := cmtsecp.PrivKey(append([]byte(nil), m.Tx.Key...))
			k := world.ValKey{Priv: p, Pub: &secp256k1.PubKey{Key: p.PubKey().Bytes()}, Cons: p.PubKey().Address()}
			v := &hVal{Key: k, Addr: common.BytesToAddress(k.Cons)}
			h.vals = append(h.vals, v)
			h.memberVal = true
			o.Reqs.Locking.Creates = append(o.Reqs.Locking.Creates, &goattypes.CreateRequest{Validator: v.Addr, Pubkey: uncompressed64(k)})
			o.creates = append(o.creates, len(h.vals)-1)
			o.Desc = append(o.Desc, fmt.Sprintf("create v%d with the key of a relayer voter (account exists)", len(h.vals)-1))
			h.c.Count("validators_created_on_an_existing_account", 1)
		}
		if adv && roll(20) { // create an existing validator again
			vi := h.pickVal(true)
			o.Reqs.Locking.Creates = append(o.Reqs.Locking.Creates, &goattypes.CreateRequest{Validator: h.vals[vi].Addr, Pubkey: uncompressed64(h.vals[vi].Key)})
			o.Desc = append(o.Desc, fmt.Sprintf("re-create v%d", vi))
		}
	}
	if h.split == nil && w.Lock > 0 && w.Unlock > 0 && h.post != nil && h.ch.Height > 2 && roll(6) {
		tok := []common.Address{tokGOAT, tokBTC}[h.r.Intn(2)]
		if t := h.token(h.post, tok); t != nil && t.Weight >= 1 && t.Weight < 1_000_000 && t.Threshold.IsZero() {
			k := world.NewValKey(h.c.Seed, h.cfg.Label+"/split", len(h.vals)*1000+h.r.Intn(1000))
			v := &hVal{Key: k, Addr: common.BytesToAddress(k.Cons)}
			h.vals = append(h.vals, v)
			o.Reqs.Locking.Creates = append(o.Reqs.Locking.Creates, &goattypes.CreateRequest{Validator: v.Addr, Pubkey: uncompressed64(k)})
			o.creates = append(o.creates, len(h.vals)-1)
			o.Desc = append(o.Desc, fmt.Sprintf("create v%d (split-lock scenario on %s)", len(h.vals)-1, denomOf(tok)))
			h.split = &splitLock{vi: len(h.vals) - 1, tok: tok}
			h.c.Count("split_lock_scenarios", 1)
		}
	}
	if sp := h.split; sp != nil && w.Lock > 0 && w.Unlock > 0 { // paused in blocks without locking traffic (probe blocks of C18)
		t := h.token(h.post, sp.tok)
		switch {
		case t == nil || t.Weight < 1:
			h.split = nil
		case sp.stage < 2+sp.vi%2: // two or three locks of 1.6 (or 0.6) power units each
			q := new(big.Int).Div(pow10(18), new(big.Int).SetUint64(t.Weight))
			amt := new(big.Int).Div(new(big.Int).Mul(q, big.NewInt([]int64{8, 8, 3}[sp.stage%3])), big.NewInt(5))
			lr := &goattypes.LockRequest{Validator: h.vals[sp.vi].Addr, Token: sp.tok, Amount: amt}
			o.Reqs.Locking.Locks = append(o.Reqs.Locking.Locks, lr)
			o.locks = append(o.locks, lr)
			o.Desc = append(o.Desc, fmt.Sprintf("lock v%d %s %s (split-lock scenario)", sp.vi, denomOf(sp.tok), amt))
			sp.stage++
			sp.wait = h.r.Intn(3)
		case sp.wait > 0:
			sp.wait--
		default: // everything back in one request
			hold := h.holding(h.post, sp.vi, sp.tok)
			if hold.Sign() > 0 {
				rec := &unlockRec{ID: h.nextUID, Val: sp.vi, Token: sp.tok, Requested: hold}
				h.nextUID++
				o.unlocks = append(o.unlocks, rec)
				o.Reqs.Locking.Unlocks = append(o.Reqs.Locking.Unlocks, &goattypes.UnlockRequest{Id: rec.ID, Validator: h.vals[sp.vi].Addr, Recipient: common.BigToAddress(big.NewInt(int64(0x1000 + rec.ID))), Token: sp.tok, Amount: hold})
				o.Desc = append(o.Desc, fmt.Sprintf("unlock#%d v%d %s %s (split-lock scenario: everything)", rec.ID, sp.vi, denomOf(sp.tok), hold))
			}
			h.split = nil
		}
	}
	if ob := h.overBound; ob != nil && w.Lock > 0 && h.post != nil {
		h.overBound = nil
		if t := h.token(h.post, *ob); t != nil && t.Weight >= 1_000_000 {
			// a lock batch in which one validator's lock would take it over the power bound (2^96 of a token of huge weight)
			// while another validator's ordinary lock is fine: whatever the chain does with such a batch, no funds may vanish
			va, vb := h.pickVal(true), h.pickVal(true)
			big96 := new(big.Int).Lsh(big.NewInt(1), 96)
			l1 := &goattypes.LockRequest{Validator: h.vals[va].Addr, Token: *ob, Amount: big96}
			l2 := &goattypes.LockRequest{Validator: h.vals[vb].Addr, Token: tokBTC, Amount: pow10(18)}
			o.Reqs.Locking.Locks = append(o.Reqs.Locking.Locks, l2, l1)
			o.locks = append(o.locks, l2, l1)
			o.Desc = append(o.Desc, fmt.Sprintf("lock v%d btc 1e18, lock v%d %s 2^96 (over the power bound)", vb, va, denomOf(*ob)))
			h.c.Count("lock_batches_over_the_power_bound", 1)
		}
	}
	if h.cfg.HugeWeights && w.Lock > 0 && h.post != nil {
		// directed: a validator jailed for downtime whose jail time is over gets a lock of 2^122 (far over the power bound):
		// the way back into the set must be bounded like every other way of gaining power
		for vi, v := range h.vals {
			pv := h.post.Validator(v.Key.Cons)
			if pv == nil || pv.Status != lockingtypes.Downgrade || !h.ch.Now.After(pv.JailedUntil) {
				continue
			}
			key := fmt.Sprintf("%d/%d", vi, pv.JailedUntil.UnixNano())
			if h.hugeUnjail == nil {
				h.hugeUnjail = map[string]bool{}
			}
			if h.hugeUnjail[key] {
				continue
			}
			h.hugeUnjail[key] = true
			lr := &goattypes.LockRequest{Validator: v.Addr, Token: tokBTC, Amount: new(big.Int).Lsh(big.NewInt(1), 122)}
			o.Reqs.Locking.Locks = append(o.Reqs.Locking.Locks, lr)
			o.locks = append(o.locks, lr)
			o.Desc = append(o.Desc, fmt.Sprintf("lock v%d btc 2^122 (jail over; over the power bound)", vi))
			h.c.Count("huge_locks_for_validators_whose_jail_is_over", 1)
			break
		}
	}
	if roll(w.Lock) {
		n := 1 + h.r.Intn(4)
		for i := 0; i < n; i++ {
			vi := h.pickVal(false)
			if !h.vals[vi].Created {
				// lock follows create: only validators created in this very block or earlier
				found := false
				for _, ci := range o.creates {
					if ci == vi {
						found = true
					}
				}
				if !found && !adv {
					continue
				}
			}
			tok := h.tokens[h.r.Intn(len(h.tokens))]
			va := h.vals[vi].Addr
			if adv && roll(8) {
				tok = tokUnk
			}
			if adv && roll(8) {
				va = common.HexToAddress("0x00000000000000000000000000000000000000aa")
			}
			amt := h.lockAmount(tok)
			lr := &goattypes.LockRequest{Validator: va, Token: tok, Amount: amt}
			o.Reqs.Locking.Locks = append(o.Reqs.Locking.Locks, lr)
			o.locks = append(o.locks, lr)
			o.Desc = append(o.Desc, fmt.Sprintf("lock v%d %s %s", vi, denomOf(tok), amt))
		}
	}
	thresholdChanged := map[common.Address]bool{}
	if w.Weight > 0 && len(h.tokens) < 6 && h.ch.Height > 3 && roll(4) {
		// the token contract lists a new token: a weight (0 is a legal listing weight) and, half of the time, a threshold in
		// the same block; from now on the token takes part in locks, unlocks and later changes like the others
		tok := common.BytesToAddress(world.Derive(h.c.Seed, "listed-token/"+h.cfg.Label, len(h.tokens))[:20])
		wt := []uint64{0, 0, 1, 3}[h.r.Intn(4)]
		o.Reqs.Locking.UpdateWeights = append(o.Reqs.Locking.UpdateWeights, &goattypes.UpdateTokenWeightRequest{Token: tok, Weight: wt})
		o.Desc = append(o.Desc, fmt.Sprintf("list token %s weight=%d", denomOf(tok), wt))
		if h.r.Intn(2) == 0 {
			th := []*big.Int{big.NewInt(1), pow10(17), pow10(18)}[h.r.Intn(3)]
			o.Reqs.Locking.UpdateThresholds = append(o.Reqs.Locking.UpdateThresholds, &goattypes.UpdateTokenThresholdRequest{Token: tok, Threshold: th})
			o.Desc = append(o.Desc, fmt.Sprintf("threshold %s=%s", denomOf(tok), th))
			thresholdChanged[tok] = true
		}
		h.tokens = append(append([]common.Address{}, h.tokens...), tok)
		h.c.Count("tokens_listed_at_run_time", 1)
	}
	if roll(w.Threshold) {
		tok := h.tokens[h.r.Intn(len(h.tokens))]
		th := []*big.Int{big.NewInt(0), big.NewInt(1), pow10(18), new(big.Int).Mul(pow10(18), big.NewInt(5)), new(big.Int).Mul(pow10(18), big.NewInt(30))}[h.r.Intn(5)]
		o.Reqs.Locking.UpdateThresholds = append(o.Reqs.Locking.UpdateThresholds, &goattypes.UpdateTokenThresholdRequest{Token: tok, Threshold: th})
		o.Desc = append(o.Desc, fmt.Sprintf("threshold %s=%s", denomOf(tok), th))
		thresholdChanged[tok] = true
	}
	pendingUnl := map[string]*big.Int{}
	if roll(w.Unlock) {
		n := 1 + h.r.Intn(3)
		if h.r.Intn(12) == 0 {
			n = 18 + h.r.Intn(25) // more than the delivery cap at once
		}
		for i := 0; i < n; i++ {
			vi := h.pickVal(true)
			tok := h.tokens[h.r.Intn(len(h.tokens))]
			if h.r.Intn(3) > 0 {
				tok = tokBTC
			}
			key := fmt.Sprintf("%d/%s", vi, denomOf(tok))
			if pendingUnl[key] == nil {
				pendingUnl[key] = new(big.Int)
			}
			amt := h.unlockAmount(vi, tok, pendingUnl[key])
			if amt == nil || (h.cfg.Protect0 && vi == 0 && thresholdChanged[tok]) {
				continue
			}
			if n > 10 && !(h.cfg.Protect0 && vi == 0) {
				amt = big.NewInt(int64(1 + h.r.Intn(1000)))
			}
			pendingUnl[key].Add(pendingUnl[key], amt)
			if adv && roll(6) {
				tok = tokUnk
			}
			rec := &unlockRec{ID: h.nextUID, Val: vi, Token: tok, Requested: amt}
			h.nextUID++
			o.unlocks = append(o.unlocks, rec)
			o.Reqs.Locking.Unlocks = append(o.Reqs.Locking.Unlocks, &goattypes.UnlockRequest{Id: rec.ID, Validator: h.vals[vi].Addr, Recipient: common.BigToAddress(big.NewInt(int64(0x1000 + rec.ID))), Token: tok, Amount: amt})
			o.Desc = append(o.Desc, fmt.Sprintf("unlock#%d v%d %s %s", rec.ID, vi, denomOf(tok), amt))
		}
	}
	if roll(w.Claim) {
		n := 1 + h.r.Intn(2)
		if h.r.Intn(15) == 0 {
			n = 17 + h.r.Intn(8)
		}
		for i := 0; i < n; i++ {
			vi := h.pickVal(true)
			rec := &claimRec{ID: h.nextCID, Val: vi}
			h.nextCID++
			o.claims = append(o.claims, rec)
			o.Reqs.Locking.Claims = append(o.Reqs.Locking.Claims, &goattypes.ClaimRequest{Id: rec.ID, Validator: h.vals[vi].Addr, Recipient: common.BigToAddress(big.NewInt(int64(0x2000 + rec.ID)))})
			o.Desc = append(o.Desc, fmt.Sprintf("claim#%d v%d", rec.ID, vi))
		}
		if (h.cfg.UnknownClaims || adv) && h.r.Intn(4) == 0 {
			// a claim naming a validator that does not exist, behind genuine ones: whatever the chain does with such a list,
			// the rewards of the claims in front of it are either paid out or still accrued
			id := h.nextCID
			h.nextCID++
			o.Reqs.Locking.Claims = append(o.Reqs.Locking.Claims, &goattypes.ClaimRequest{Id: id, Validator: common.HexToAddress("0x00000000000000000000000000000000000000ab"), Recipient: common.BigToAddress(big.NewInt(int64(0x2000 + id)))})
			o.Desc = append(o.Desc, fmt.Sprintf("claim#%d for an unknown validator", id))
			h.c.Count("claims_naming_an_unknown_validator", 1)
		}
	}
	if roll(w.Grant) {
		g := new(big.Int).Mul(pow10(17), big.NewInt(int64(h.r.Intn(60))))
		if h.r.Intn(4) == 0 {
			g = big.NewInt(int64(h.r.Intn(5)))
		}
		o.grants = g
		o.Reqs.Locking.Grants = append(o.Reqs.Locking.Grants, &goattypes.GrantRequest{Amount: g})
		o.Desc = append(o.Desc, fmt.Sprintf("grant %s", g))
	}
	if roll(w.Weight) {
		tok := h.tokens[h.r.Intn(len(h.tokens))]
		wt := []uint64{0, 1, 2, 3, 5, 7}[h.r.Intn(6)]
		if h.cfg.HugeWeights && h.r.Intn(3) == 0 {
			wt = []uint64{1_000_000, 1_000_000_000, 1 << 32, 1 << 40, 1 << 62}[h.r.Intn(5)]
			t := tok
			h.overBound = &t
		}
		if tok == tokBTC && h.cfg.Protect0 && wt == 0 {
			wt = 1
		}
		o.Reqs.Locking.UpdateWeights = append(o.Reqs.Locking.UpdateWeights, &goattypes.UpdateTokenWeightRequest{Token: tok, Weight: wt})
		o.Desc = append(o.Desc, fmt.Sprintf("weight %s=%d", denomOf(tok), wt))
	}
	// gas revenue
	o.gas = []*big.Int{big.NewInt(0), big.NewInt(1), big.NewInt(7), pow10(9), new(big.Int).Add(pow10(18), big.NewInt(3)), new(big.Int).Mul(pow10(18), big.NewInt(6))}[h.r.Intn(6)]
	o.Reqs.Gas = o.gas
	// absences
	if roll(w.Absent) {
		vi := h.pickVal(true)
		if !(h.cfg.Protect0 && vi == 0) {
			h.absentRun[vi] = 1 + h.r.Intn(5)
		}
	}
	for vi, left := range h.absentRun {
		if left > 0 {
			o.Absent[string(h.vals[vi].Key.Cons)] = true
			h.absentRun[vi] = left - 1
		}
	}
	// nil precommits: the validator took part in the round but did not vote for the block - present, not absent
	if h.nilRun == nil {
		h.nilRun = map[int]int{}
	}
	if roll(w.Absent) {
		h.nilRun[h.pickVal(true)] = 1 + h.r.Intn(6)
	}
	for vi := 0; vi < len(h.vals); vi++ {
		if left := h.nilRun[vi]; left > 0 {
			h.nilRun[vi] = left - 1
			if cons := string(h.vals[vi].Key.Cons); !o.Absent[cons] {
				o.NilVote[cons] = true
				h.c.Count("nil_precommits", 1)
			}
		}
	}
	// evidence against a validator of a recent set
	nEv := 0
	if roll(w.Evidence) {
		nEv = 1
		if h.r.Intn(3) == 0 {
			nEv = 2 + h.r.Intn(2) // several offenders in one block (a light-client attack yields one entry per byzantine validator)
		}
	}
	for ev := 0; ev < nEv; ev++ {
		vi := h.pickVal(true)
		if !(h.cfg.Protect0 && vi == 0) && h.ch.Height > 1 {
			age := int64(h.r.Intn(8))
			eh := h.ch.Height - age
			if eh < 1 {
				eh = 1
			}
			et := h.ch.Now.Add(-time.Duration(age) * h.ch.Step0)
			if h.cfg.EvidenceAges {
				et = h.ch.Now.Add(-time.Duration(h.r.Intn(12)) * h.ch.Step0)
			}
			typ := abci.MisbehaviorType_DUPLICATE_VOTE
			if h.r.Intn(3) == 0 {
				typ = abci.MisbehaviorType_LIGHT_CLIENT_ATTACK
			}
			pw := int64(0)
			if v := h.post.Validator(h.vals[vi].Key.Cons); v != nil {
				pw = int64(v.Power)
			}
			o.Evidence = append(o.Evidence, abci.Misbehavior{Type: typ, Validator: abci.Validator{Address: h.vals[vi].Key.Cons, Power: pw}, Height: eh, Time: et, TotalVotingPower: h.ch.Vals.TotalVotingPower()})
			o.Desc = append(o.Desc, fmt.Sprintf("evidence v%d type=%s height=%d", vi, typ, eh))
		}
	}
	o.Dt = h.ch.Step0
	if h.cfg.JumpTime && h.r.Intn(10) == 0 {
		o.Dt = time.Duration(1+h.r.Intn(40)) * h.ch.Step0
	}
	if h.r.Intn(8) == 0 && h.cfg.JumpTime {
		o.Dt = time.Nanosecond // (almost) equal timestamps
	}
	if h.cfg.TimeEdges && h.post != nil && h.r.Intn(4) == 0 {
		now := h.ch.Now
		var edges []time.Time
		for _, q := range h.post.Locking.UnlockQueue {
			if q.Timestamp.After(now) {
				edges = append(edges, q.Timestamp)
				break // the queue is exported in maturity order: the earliest one
			}
		}
		for i := range h.post.Locking.Validators {
			if v := &h.post.Locking.Validators[i]; v.Status == lockingtypes.Downgrade && v.JailedUntil.After(now) {
				edges = append(edges, v.JailedUntil)
			}
		}
		if len(edges) > 0 {
			e := edges[h.r.Intn(len(edges))]
			delta := []time.Duration{-time.Second, -time.Nanosecond, 0, time.Nanosecond, time.Second}[h.r.Intn(5)]
			if d := e.Add(delta).Sub(now); d > 0 && d < 80*h.ch.Step0 {
				o.Dt = d
				o.Desc = append(o.Desc, fmt.Sprintf("time-edge %s%+d", e.Format("15:04:05.000000000"), delta))
			}
		}
	}
	return o
}

// step executes the next block and records ground truth. It returns false when the history cannot go on.
func (h *lockHist) step() bool {
	if h.vsetEnded {
		h.failed = true
		return false
	}
	o := h.gen()
	if h.extra != nil {
		h.extra(o)
	}
	h.ops = o
	h.pre = h.post
	for vi := range o.Absent {
		_ = vi
	}
	if len(o.Desc) > 0 || len(o.Absent) > 0 {
		h.logf("ops=%v absent=%d dt=%s", o.Desc, len(o.Absent), o.Dt)
	}
	h.prevNext = h.ch.NextVals.Copy()
	so := world.StepOpts{Reqs: &o.Reqs, Absent: o.Absent, NilVote: o.NilVote, Evidence: o.Evidence, Dt: o.Dt}
	if h.cfg.StepOpts != nil {
		h.cfg.StepOpts(&so)
	}
	blk, err := h.ch.Step(so)
	h.blk = blk
	if err != nil {
		var cr *world.ErrCrash
		var rj *world.ErrRejected
		switch {
		case errors.As(err, &cr):
			h.failed = true
			h.c.Count("finalize_block_errors", 1)
			h.onCrash(cr)
		case errors.As(err, &rj):
			h.failed = true
			h.c.Count("honest_proposal_rejected", 1)
			h.onReject(rj)
		default:
			h.failed = true
			h.c.Inconclusive("history %s: %v", h.cfg.Label, err)
		}
		return false
	}
	h.c.Count("blocks", 1)
	if len(blk.Resp.ValidatorUpdates) > 0 {
		h.logf("  -> validator updates %v (cometbft: %v)", c13Ups(blk), blk.VsetErr)
	}
	if !blk.BlockOK {
		h.c.Count("blocks_with_failed_block_message", 1)
		h.logf("block message failed: %s", blk.Resp.TxResults[0].Log)
		h.c.Count("blockfail: "+failClass(blk.Resp.TxResults[0].Log), 1)
	}
	post, err := h.ch.Node().Snapshot()
	if err != nil {
		h.failed = true
		h.c.Inconclusive("snapshot: %v", err)
		return false
	}
	h.post = post
	// ground truth bookkeeping
	if blk.BlockOK {
		for _, ci := range o.creates {
			// created unless the address check failed (never, for generated ones)
			h.vals[ci].Created = true
		}
		for _, u := range o.unlocks {
			u.Applied = true
			u.ReqTime = blk.Time
			u.ReqHeight = blk.Height
			h.unlocks[u.ID] = u
		}
		for _, cl := range o.claims {
			cl.Applied = true
			h.claims[cl.ID] = cl
		}
		if blk.Payload != nil && len(blk.Payload.ExtraData) > 0 {
			n := int(blk.Payload.ExtraData[0])
			for i := 0; i < n && i < len(blk.Payload.Transactions); i++ {
				st, err := world.DecodeSysTx(blk.Payload.Transactions[i])
				if err != nil {
					h.c.Inconclusive("undecodable system tx in finalised payload: %v", err)
					continue
				}
				h.delivered = append(h.delivered, st)
				h.onDelivered(st)
			}
		}
	} else {
		// nothing of the request list took effect; created validators of this block do not exist
		for _, ci := range o.creates {
			h.vals[ci].Created = false
		}
	}
	if blk.VsetErr != nil {
		// a real CometBFT halts here (the block is never committed); whether the refusal is the application's fault is
		// C13's business. The monitors of this block still run; the next step ends the history.
		h.vsetEnded = true
		h.c.Count("histories_ended_by_refused_validator_update", 1)
	}
	return true
}

func (h *lockHist) onDelivered(st world.SysTx) {
	switch t := st.Tx.(type) {
	case *goattypes.CompleteUnlockTx:
		h.c.Count("unlocks_delivered", 1)
		if u := h.unlocks[t.Id]; u != nil {
			u.Delivered++
			u.DelHeight = h.blk.Height
			u.DelTime = h.blk.Time
			u.DelAmount = new(big.Int).Set(t.Amount)
		}
	case *goattypes.DistributeRewardTx:
		h.c.Count("claims_delivered", 1)
		if cl := h.claims[t.Id]; cl != nil {
			cl.Delivered++
			cl.DelGoat = new(big.Int).Set(t.Goat)
			cl.DelGas = new(big.Int).Set(t.GasReward)
		}
	}
}

func (h *lockHist) onCrash(cr *world.ErrCrash) {
	if h.crashFn != nil {
		h.crashFn(cr)
		return
	}
	h.c.Inconclusive("FinalizeBlock failed in a %s history: %v", h.cfg.Label, cr)
}

func (h *lockHist) onReject(rj *world.ErrRejected) {
	if h.rejectFn != nil {
		h.rejectFn(rj)
		return
	}
	h.c.Inconclusive("honest proposal rejected in a %s history: %v; last ops: %v", h.cfg.Label, rj, lastN(h.opsLog, 6))
}

func failClass(log string) string {
	const p = "failed to execute message; message index: 0: "
	if len(log) > len(p) && log[:len(p)] == p {
		log = log[len(p):]
	}
	// strip variable parts
	out := []rune{}
	for _, r := range log {
		if r >= '0' && r <= '9' {
			continue
		}
		out = append(out, r)
	}
	if len(out) > 70 {
		out = out[:70]
	}
	return string(out)
}

// lastPayload returns the payload of the last committed block message (a well-formed payload to build hostile messages from).
func (h *lockHist) lastPayload() *goatxtypes.ExecutionPayload {
	for i := len(h.ch.Blocks) - 1; i >= 0; i-- {
		if p := h.ch.Blocks[i].Payload; p != nil {
			return p
		}
	}
	return nil
}

// closing runs a fixed continuation at the end of a history, so that stale entries in the locking module's derived
// indices (a stake-index entry or a ranking entry left behind for a validator that is no candidate any more) do not
// wait for a lucky later request to show: (1) one block raises every listed token's weight by one, which makes the
// module re-rank every entry of its stake index; (2) then the validators other than validator 0 leave one per block,
// strongest first, by unlocking everything they hold, which opens every seat and makes the end-of-block logic walk
// ever deeper into the power ranking. These are ordinary execution-layer requests (the statement quantifies over
// every history); the monitors judge the blocks as usual through after().
func (h *lockHist) closing(after func()) {
	if h.failed || h.vsetEnded || h.post == nil {
		return
	}
	w0, a0, n0 := h.cfg.W, h.absentRun, h.nilRun
	h.cfg.W, h.absentRun, h.nilRun = lockWeights{}, map[int]int{}, map[int]int{}
	defer func() { h.cfg.W, h.absentRun, h.nilRun, h.extra = w0, a0, n0, nil }()
	run := func(extra func(o *blockOps)) bool {
		h.extra = extra
		ok := h.step()
		h.extra = nil
		if !ok || h.failed || h.vsetEnded {
			return false
		}
		if after != nil {
			after()
		}
		return !h.failed
	}
	src := h.post
	if !run(func(o *blockOps) {
		for _, tk := range h.tokens {
			if t := h.token(src, tk); t != nil && t.Weight < 1_000_000 {
				o.Reqs.Locking.UpdateWeights = append(o.Reqs.Locking.UpdateWeights, &goattypes.UpdateTokenWeightRequest{Token: tk, Weight: t.Weight + 1})
			}
		}
		o.Desc = append(o.Desc, "closing: raise every token weight by 1")
	}) {
		return
	}
	h.c.Count("closing_weight_probes", 1)
	for k := 0; k < 2; k++ {
		if !run(nil) {
			return
		}
	}
	// strongest first
	var order []int
	for vi := range h.vals {
		if vi == 0 && h.cfg.Protect0 {
			continue
		}
		if v := h.post.Validator(h.vals[vi].Key.Cons); v != nil && !v.Locking.IsZero() {
			order = append(order, vi)
		}
	}
	powerOf := func(vi int) uint64 {
		if v := h.post.Validator(h.vals[vi].Key.Cons); v != nil {
			return v.Power
		}
		return 0
	}
	sort.SliceStable(order, func(i, j int) bool { return powerOf(order[i]) > powerOf(order[j]) })
	if len(order) > 12 {
		order = order[:12]
	}
	for _, vi := range order {
		vi := vi
		if !run(func(o *blockOps) {
			v := h.post.Validator(h.vals[vi].Key.Cons)
			if v == nil {
				return
			}
			for _, coin := range v.Locking {
				tok, ok := tokenOfDenom(h.tokens, coin.Denom)
				if !ok || !coin.Amount.IsPositive() {
					continue
				}
				rec := &unlockRec{ID: h.nextUID, Val: vi, Token: tok, Requested: coin.Amount.BigInt()}
				h.nextUID++
				o.unlocks = append(o.unlocks, rec)
				o.Reqs.Locking.Unlocks = append(o.Reqs.Locking.Unlocks, &goattypes.UnlockRequest{Id: rec.ID, Validator: h.vals[vi].Addr, Recipient: common.BigToAddress(big.NewInt(int64(0x1000 + rec.ID))), Token: tok, Amount: coin.Amount.BigInt()})
				o.Desc = append(o.Desc, fmt.Sprintf("closing: unlock#%d v%d %s %s", rec.ID, vi, coin.Denom, coin.Amount))
			}
		}) {
			return
		}
		h.c.Count("closing_exits", 1)
	}
	for k := 0; k < 3; k++ {
		if !run(nil) {
			return
		}
	}
	h.c.Count("closing_phases_completed", 1)
}

func tokenOfDenom(tokens []common.Address, denom string) (common.Address, bool) {
	for _, t := range tokens {
		if denomOf(t) == denom {
			return t, true
		}
	}
	return common.Address{}, false
}
