package checks

import (
	"encoding/binary"
	"errors"
	"fmt"
	"math/big"
	"math/rand"
	"os"
	"reflect"
	"time"

	sdk "github.com/cosmos/cosmos-sdk/types"
	"github.com/cosmos/gogoproto/proto"
	"github.com/ethereum/go-ethereum/common"
	"github.com/ethereum/go-ethereum/core/types/goattypes"
	bitcointypes "github.com/goatnetwork/goat/x/bitcoin/types"
	goatxtypes "github.com/goatnetwork/goat/x/goat/types"
	lockingtypes "github.com/goatnetwork/goat/x/locking/types"
	relayertypes "github.com/goatnetwork/goat/x/relayer/types"

	"verif/harness/vc"
	"verif/harness/world"
)

// C19: hostile bytes at every door. The worker logs each input before it is delivered
// (VERIF_SCRATCH/c19-last-input-<case>), so that a dying process leaves its reproducer behind.

// pbFields splits a protobuf message into its top-level (tag, raw bytes) fields; ok=false if malformed.
func pbFields(b []byte) (fields [][]byte, ok bool) {
	for len(b) > 0 {
		tag, n := binary.Uvarint(b)
		if n <= 0 {
			return nil, false
		}
		start := b
		b = b[n:]
		l := 0
		switch tag & 7 {
		case 0:
			_, m := binary.Uvarint(b)
			if m <= 0 {
				return nil, false
			}
			l = m
		case 1:
			l = 8
		case 5:
			l = 4
		case 2:
			ln, m := binary.Uvarint(b)
			if m <= 0 || uint64(len(b)-m) < ln {
				return nil, false
			}
			l = m + int(ln)
		default:
			return nil, false
		}
		if len(b) < l {
			return nil, false
		}
		fields = append(fields, start[:n+l])
		b = b[l:]
	}
	return fields, true
}

func join(fs [][]byte) []byte {
	var out []byte
	for _, f := range fs {
		out = append(out, f...)
	}
	return out
}

// mutateBytes applies one of the byte/structure-level operators.
func mutateBytes(r *rand.Rand, b []byte) ([]byte, string) {
	b = append([]byte(nil), b...)
	if len(b) == 0 {
		return []byte{0x0a, 0x00}, "from-empty"
	}
	switch r.Intn(11) {
	case 0:
		b[r.Intn(len(b))] ^= 1 << uint(r.Intn(8))
		return b, "bitflip"
	case 1:
		return b[:r.Intn(len(b))], "truncate"
	case 2:
		if fs, ok := pbFields(b); ok && len(fs) > 0 {
			i := r.Intn(len(fs))
			return join(append(append(append([][]byte{}, fs[:i+1]...), fs[i]), fs[i+1:]...)), "duplicate-field"
		}
	case 3:
		if fs, ok := pbFields(b); ok && len(fs) > 0 {
			i := r.Intn(len(fs))
			return join(append(append([][]byte{}, fs[:i]...), fs[i+1:]...)), "delete-field"
		}
	case 4:
		if fs, ok := pbFields(b); ok && len(fs) > 0 { // recurse into a length-delimited field
			i := r.Intn(len(fs))
			f := fs[i]
			tag, n := binary.Uvarint(f)
			if tag&7 == 2 {
				ln, m := binary.Uvarint(f[n:])
				inner := f[n+m : n+m+int(ln)]
				mi, _ := mutateBytes(r, inner)
				nf := append([]byte(nil), f[:n]...)
				nf = binary.AppendUvarint(nf, uint64(len(mi)))
				nf = append(nf, mi...)
				fs[i] = nf
				return join(fs), "nested-mutation"
			}
		}
	case 5:
		if fs, ok := pbFields(b); ok && len(fs) > 0 { // length prefix +-1
			i := r.Intn(len(fs))
			f := append([]byte(nil), fs[i]...)
			_, n := binary.Uvarint(f)
			if n < len(f) {
				f[n] += byte(1 + 2*r.Intn(2) - 1)
				fs[i] = f
				return join(fs), "length-prefix"
			}
		}
	case 6:
		if fs, ok := pbFields(b); ok && len(fs) > 0 { // a field blown up to 32 KiB
			i := r.Intn(len(fs))
			tag, n := binary.Uvarint(fs[i])
			if tag&7 == 2 {
				nf := append([]byte(nil), fs[i][:n]...)
				nf = binary.AppendUvarint(nf, 32*1024)
				nf = append(nf, make([]byte, 32*1024)...)
				fs[i] = nf
				return join(fs), "32KiB-field"
			}
		}
	case 7:
		if fs, ok := pbFields(b); ok && len(fs) > 0 { // empty a length-delimited field (nil sub-message, empty bytes)
			i := r.Intn(len(fs))
			tag, n := binary.Uvarint(fs[i])
			if tag&7 == 2 {
				fs[i] = append(append([]byte(nil), fs[i][:n]...), 0)
				return join(fs), "empty-field"
			}
		}
	case 8:
		if fs, ok := pbFields(b); ok && len(fs) > 0 { // bytes field set to an odd length (bitmaps, keys, hashes)
			i := r.Intn(len(fs))
			tag, n := binary.Uvarint(fs[i])
			if tag&7 == 2 {
				l := 1 + r.Intn(64)
				nf := append([]byte(nil), fs[i][:n]...)
				nf = binary.AppendUvarint(nf, uint64(l))
				pad := make([]byte, l)
				r.Read(pad)
				fs[i] = append(nf, pad...)
				return join(fs), "odd-length-bytes"
			}
		}
	case 9:
		if fs, ok := pbFields(b); ok && len(fs) > 0 { // non-canonical varint in a tag
			i := r.Intn(len(fs))
			f := fs[i]
			_, n := binary.Uvarint(f)
			if n == 1 {
				fs[i] = append([]byte{f[0] | 0x80, 0x00}, f[1:]...)
				return join(fs), "non-canonical-varint"
			}
		}
	case 10:
		i := r.Intn(len(b) + 1)
		ins := make([]byte, 1+r.Intn(8))
		r.Read(ins)
		return append(append(append([]byte{}, b[:i]...), ins...), b[i:]...), "insert-bytes"
	}
	b[r.Intn(len(b))] ^= 0xff
	return b, "byteflip"
}

// reparse marshals msg, mutates, and unmarshals into a fresh instance of the same type.
func reparse(r *rand.Rand, msg sdk.Msg) (sdk.Msg, string, bool) {
	bz, err := proto.Marshal(msg)
	if err != nil {
		return nil, "", false
	}
	mb, op := mutateBytes(r, bz)
	nm := reflect.New(reflect.TypeOf(msg).Elem()).Interface().(proto.Message)
	if err := proto.Unmarshal(mb, nm); err != nil {
		return nil, op, false
	}
	sm, ok := nm.(sdk.Msg)
	return sm, op, ok
}

func c19Requests(r *rand.Rand, w *world.World, h int64) *world.Requests {
	q := &world.Requests{}
	huge := new(big.Int).Sub(new(big.Int).Lsh(big.NewInt(1), 256), big.NewInt(1))
	amt := func() *big.Int {
		switch r.Intn(4) {
		case 0:
			return new(big.Int).Set(huge)
		case 1:
			return new(big.Int).Lsh(big.NewInt(1), uint(r.Intn(256)))
		case 2:
			return big.NewInt(0)
		}
		return big.NewInt(r.Int63())
	}
	addr := func() common.Address {
		switch r.Intn(3) {
		case 0:
			return common.BytesToAddress(w.Vals[r.Intn(len(w.Vals))].Cons)
		case 1:
			return common.Address{}
		}
		var a common.Address
		r.Read(a[:])
		return a
	}
	tok := func() common.Address {
		return []common.Address{tokBTC, tokGOAT, tokX, tokUnk}[r.Intn(4)]
	}
	maddr := func() common.Address { // relayer membership requests aim at real members most of the time
		if r.Intn(4) > 0 && len(w.Members) > 0 {
			return common.BytesToAddress(w.Members[r.Intn(len(w.Members))].Addr)
		}
		return addr()
	}
	n := r.Intn(6)
	for i := 0; i < n; i++ {
		switch r.Intn(14) {
		case 0:
			q.Locking.Locks = append(q.Locking.Locks, &goattypes.LockRequest{Validator: addr(), Token: tok(), Amount: amt()})
		case 1:
			q.Locking.Unlocks = append(q.Locking.Unlocks, &goattypes.UnlockRequest{Id: r.Uint64() >> uint(r.Intn(64)), Validator: addr(), Recipient: addr(), Token: tok(), Amount: amt()})
		case 2:
			q.Locking.Claims = append(q.Locking.Claims, &goattypes.ClaimRequest{Id: uint64(r.Intn(5)), Validator: addr(), Recipient: addr()})
		case 3:
			q.Locking.Grants = append(q.Locking.Grants, &goattypes.GrantRequest{Amount: amt()})
		case 4:
			q.Locking.UpdateWeights = append(q.Locking.UpdateWeights, &goattypes.UpdateTokenWeightRequest{Token: tok(), Weight: r.Uint64() >> uint(r.Intn(64))})
		case 5:
			q.Locking.UpdateThresholds = append(q.Locking.UpdateThresholds, &goattypes.UpdateTokenThresholdRequest{Token: tok(), Threshold: amt()})
		case 6:
			var pk [64]byte
			r.Read(pk[:])
			q.Locking.Creates = append(q.Locking.Creates, &goattypes.CreateRequest{Validator: addr(), Pubkey: pk})
		case 7:
			s := make([]byte, r.Intn(90))
			r.Read(s)
			if len(s) == 0 {
				s = []byte("x")
			}
			q.Bridge.Withdraws = append(q.Bridge.Withdraws, &goattypes.WithdrawalRequest{Id: uint64(r.Intn(6)), Amount: r.Uint64(), TxPrice: r.Uint64(), Address: string(s)})
		case 8:
			q.Bridge.ReplaceByFees = append(q.Bridge.ReplaceByFees, &goattypes.ReplaceByFeeRequest{Id: uint64(r.Intn(8)), TxPrice: r.Uint64()})
		case 9:
			q.Bridge.Cancel1s = append(q.Bridge.Cancel1s, &goattypes.Cancel1Request{Id: uint64(r.Intn(8))})
		case 10:
			q.Bridge.DepositTax = append(q.Bridge.DepositTax, &goattypes.DepositTaxRequest{Rate: r.Uint64() >> uint(r.Intn(64)), Max: r.Uint64()})
		case 11:
			q.Bridge.MinDeposit = append(q.Bridge.MinDeposit, &goattypes.MinDepositRequest{Satoshi: r.Uint64() >> uint(r.Intn(64))})
		case 12:
			var h32 common.Hash
			r.Read(h32[:])
			q.Relayer.Adds = append(q.Relayer.Adds, &goattypes.AddVoterRequest{Voter: maddr(), Pubkey: h32})
		case 13:
			q.Relayer.Removes = append(q.Relayer.Removes, &goattypes.RemoveVoterRequest{Voter: maddr()})
		}
	}
	q.Gas = amt()
	switch r.Intn(10) {
	case 0: // byte-level mutation of the encoded list
		raw := q.Encode(uint64(h))
		if len(raw) > 0 {
			i := r.Intn(len(raw))
			raw[i], _ = mutateBytes(r, raw[i])
			q = &world.Requests{Raw: raw}
		}
	case 1: // many typed requests
		raw := q.Encode(uint64(h))
		for len(raw) < 255 {
			raw = append(raw, []byte{goattypes.Cancel1RequestType, 1, 0, 0, 0, 0, 0, 0, 0})
		}
		if r.Intn(2) == 0 {
			raw = append(raw, raw[0])
		}
		q = &world.Requests{Raw: raw}
	case 2: // unknown type byte
		raw := append(q.Encode(uint64(h)), []byte{0x63 + byte(r.Intn(100)), 1, 2})
		q = &world.Requests{Raw: raw}
	}
	return q
}

func c19Case(c *vc.Ctx, idx int) {
	r := world.NewRand(c.Seed, "c19", idx)
	w, err := world.New(world.Config{Seed: c.Seed, Label: fmt.Sprintf("c19-%d", idx), NVals: 2, NRelayers: 3,
		Relayer: func(g *relayertypes.GenesisState) {
			g.Params.ElectingPeriod = 10 * time.Minute
			if idx%2 == 1 {
				g.Params.ElectingPeriod = 24 * time.Second // elections apply the queued membership changes every eighth block
			}
		},
		Locking: func(g *lockingtypes.GenesisState) {
			g.Params.UnlockDuration = 3 * time.Second
			g.Params.ExitingDuration = 6 * time.Second
		}})
	if err != nil {
		c.Inconclusive("world: %v", err)
		return
	}
	ch, err := world.NewChain(w)
	if err != nil {
		c.Inconclusive("chain: %v", err)
		w.Cleanup()
		return
	}
	defer ch.Close()
	tw, err := world.NewChain(w)
	if err != nil {
		c.Inconclusive("twin: %v", err)
		return
	}
	defer func() {
		for _, n := range tw.Nodes {
			n.Close()
		}
	}()
	dir := os.Getenv("VERIF_SCRATCH")
	if dir == "" {
		dir = os.TempDir()
	}
	lastInput := fmt.Sprintf("%s/c19-last-input-%d-%d", dir, c.Seed, idx)
	defer os.Remove(lastInput)
	record := func(kind string, data any) {
		_ = os.WriteFile(lastInput, []byte(fmt.Sprintf("case %d height %d %s\n%x\n", idx, ch.Height+1, kind, data)), 0o644)
	}
	viol := func(sig, detail string, rep any) {
		c.Violation(sig, fmt.Sprintf("height %d: %s", ch.Height, detail), rep)
	}
	squeeze := 0
	bm := newBridgeModel(c.Seed, w.BtcKey)
	b0, err := ch.Step(world.StepOpts{Reqs: &world.Requests{Bridge: bridgeReqs(bm.withdrawRequests(12))}})
	if err != nil {
		c.Inconclusive("setup: %v", err)
		return
	}
	if _, err := tw.Apply(b0, b0.Req.Txs); err != nil {
		c.Inconclusive("twin setup: %v", err)
		return
	}
	// a small Bitcoin chain with one deposit, for a well-formed deposit message in the corpus
	bc := world.NewBtcChain()
	evm := world.Derive(c.Seed, "c19evm", idx)[:20]
	depOuts := expectedDepositScripts(w.BtcKey, evm, []byte("GTT0"), 0)
	depTx := bc.FillerTx(wireOut(250_000, depOuts[0]))
	dblk := bc.Mine([]*wireMsgTx{bc.CoinbaseTx(1), depTx, bc.FillerTx()})
	blocks := c.Pick(22, 70)
	if os.Getenv("VERIF_SANITIZER_BUILD") != "" {
		blocks = c.Pick(10, 40)
	}
	for blk := 0; blk < blocks; blk++ {
		g, err := ch.Group()
		if err != nil {
			c.Inconclusive("group: %v", err)
			return
		}
		// ---- corpus: one well-formed message of every kind, for the current state ----
		var corpus []sdk.Msg
		for _, kind := range voteKinds {
			if m, ok := bm.payload(kind, g.Proposer.AddrStr, r.Intn(1000)); ok {
				if v, err := ch.QuorumVote(g, m); err == nil {
					setVote(m, v)
					corpus = append(corpus, m)
				}
			}
		}
		corpus = append(corpus,
			&bitcointypes.MsgNewDeposits{Proposer: g.Proposer.AddrStr, BlockHeaders: []*bitcointypes.BlockHeader{{Height: 1, Raw: dblk.Header}},
				Deposits: []*bitcointypes.Deposit{{Version: 0, BlockNumber: 1, TxIndex: 1, NoWitnessTx: dblk.Raw[1], OutputIndex: 0, IntermediateProof: dblk.Tree.Proof(1), EvmAddress: evm, RelayerPubkey: w.BtcKey}}},
			&bitcointypes.MsgFinalizeWithdrawal{Proposer: g.Proposer.AddrStr, Pid: 0, Txid: dblk.Txids[1], BlockNumber: 1, TxIndex: 1, IntermediateProof: dblk.Tree.Proof(1), BlockHeader: dblk.Header},
			&bitcointypes.MsgApproveCancellation{Proposer: g.Proposer.AddrStr, Id: []uint64{0, 1}},
			&relayertypes.MsgAcceptProposerRequest{Proposer: g.Proposer.AddrStr, Epoch: g.Epoch},
			&relayertypes.MsgNewVoterRequest{Proposer: g.Proposer.AddrStr, VoterBlsKey: w.Members[1].BLSPub, VoterTxKey: w.Members[1].Tx.PubKey().Bytes(), VoterTxKeyProof: make([]byte, 64), VoterBlsKeyProof: make([]byte, 48)},
		)
		// ---- mutated messages, re-signed so that they reach the handlers ----
		type item struct {
			msg sdk.Msg
			op  string
			raw []byte
		}
		var items []item
		num, seq, _ := ch.Account(g.Proposer.Addr)
		// directed: one voted message per block (kinds in turn) without its vote sub-message, through the mempool door and
		// into the block - whoever touches the vote first (a stateless check, the proposal builder, the handler) must cope
		if m, ok := bm.payload(voteKinds[blk%len(voteKinds)], g.Proposer.AddrStr, r.Intn(1000)); ok {
			if raw, err := w.SignTx(world.TxSpec{Msgs: []sdk.Msg{m}, Priv: g.Proposer.Tx, AccNum: num, Seq: seq}); err == nil {
				items = append(items, item{m, fmt.Sprintf("%T/no-vote-sub-message", m), raw})
				c.Count("voted_messages_without_a_vote_sub_message", 1)
			}
		}
		for k := 0; k < 11; k++ {
			base := corpus[r.Intn(len(corpus))]
			m, op, ok := reparse(r, base)
			for tries := 0; !ok && tries < 4; tries++ {
				m, op, ok = reparse(r, base)
			}
			if !ok {
				c.Count("mutants_not_decodable_as_message", 1)
				continue
			}
			// the envelope must name the proposer as signer, otherwise the mutant dies at the door
			setProposerAny(m, g.Proposer.AddrStr)
			raw, err := w.SignTx(world.TxSpec{Msgs: []sdk.Msg{m}, Priv: g.Proposer.Tx, AccNum: num, Seq: seq + uint64(len(items))})
			if err != nil {
				c.Count("mutants_not_signable", 1)
				continue
			}
			items = append(items, item{m, fmt.Sprintf("%T/%s", base, op), raw})
		}
		// ---- byte-level mutants of whole transactions (decoder and ante chain) ----
		var rawMutants [][]byte
		if len(items) > 0 {
			for k := 0; k < 3; k++ {
				mb, _ := mutateBytes(r, items[r.Intn(len(items))].raw)
				rawMutants = append(rawMutants, mb)
			}
		}
		for _, mb := range rawMutants {
			record("CheckTx", mb)
			if _, err := ch.CheckTx(0, mb, false); err != nil {
				c.Count("check_tx_errors", 1)
			}
			c.Eval(1)
			c.Count("raw_tx_mutants_through_check_tx", 1)
		}
		// a well-formed transaction of the relayer proposer whose timeout height is the current height: admissible now, no
		// longer when the next block is built - the proposer has to drop it from its pool while selecting
		if blk%4 == 2 {
			if raw, err := w.SignTx(world.TxSpec{Msgs: []sdkMsg{&relayertypes.MsgAcceptProposerRequest{Proposer: g.Proposer.AddrStr, Epoch: g.Epoch}}, Priv: g.Proposer.Tx, AccNum: num, Seq: seq, Timeout: uint64(ch.Height)}); err == nil {
				record("CheckTx (expires before the next proposal)", raw)
				if res, err := ch.CheckTx(0, raw, false); err == nil && res.Code == 0 {
					c.Count("expiring_transactions_left_in_the_mempool", 1)
				}
			}
		}
		// some of the re-signed mutants also go through the mempool door
		for i, it := range items {
			if i%3 == 0 && blk%4 != 2 {
				record("CheckTx", it.raw)
				_, _ = ch.CheckTx(0, it.raw, false)
			}
		}
		// ---- the block ----
		h := ch.Height + 1
		t := ch.Now.Add(3 * time.Second)
		reqs := c19Requests(r, w, h)
		if idx%2 == 1 && (blk == 1 || blk == 2 || blk == 4) {
			// membership squeeze inside the first epoch: the proposer is removed first, then one voter after the other in
			// later blocks; the last request would empty the group and must be ignored, and the election must go through
			order := append([]*world.Member{g.Proposer}, g.Voters...)
			if squeeze < len(order) && order[squeeze] != nil {
				reqs = &world.Requests{Gas: big.NewInt(1)} // nothing else in the list, so that the block message applies it
				reqs.Relayer.Removes = append(reqs.Relayer.Removes, &goattypes.RemoveVoterRequest{Voter: common.BytesToAddress(order[squeeze].Addr)})
				c.Count("membership_squeeze_requests", 1)
			}
			squeeze++
		}
		if blk%3 == 0 {
			// a well-behaved block now and then, so that both hand-over queues are non-empty when hostile payloads arrive
			reqs = &world.Requests{Gas: big.NewInt(1000)}
			for k := 0; k < 1+r.Intn(3); k++ {
				reqs.Locking.Claims = append(reqs.Locking.Claims, &goattypes.ClaimRequest{Id: uint64(blk*10 + k), Validator: common.BytesToAddress(w.Vals[k%2].Cons), Recipient: common.HexToAddress("0x0a")})
				reqs.Locking.Unlocks = append(reqs.Locking.Unlocks, &goattypes.UnlockRequest{Id: uint64(blk*10 + k), Validator: common.BytesToAddress(w.Vals[1].Cons), Recipient: common.HexToAddress("0x0b"), Token: common.Address{}, Amount: big.NewInt(int64(1000 + k))})
				reqs.Bridge.Withdraws = append(reqs.Bridge.Withdraws, &goattypes.WithdrawalRequest{Id: uint64(1000 + blk*10 + k), Amount: 20000, TxPrice: 2, Address: "nowhere"})
			}
		}
		record("PrepareProposal+requests", fmt.Sprintf("%+v", reqs))
		lc := ch.LastCommitInfo(nil)
		ptxs, perr := ch.Prepare(0, h, t, reqs)
		var stuck *world.ErrStuck
		if errors.As(perr, &stuck) {
			viol("block processing halted: proposal building makes no progress", stuck.Error(), nil)
			return
		}
		if perr != nil {
			// the fake execution layer emitted something the proposer refuses to package: nothing to finalise
			c.Count("proposals_not_built_on_hostile_requests", 1)
			ptxs, perr = ch.Prepare(0, h, t, nil)
			if perr != nil {
				viol("no proposal can be built after hostile requests", perr.Error(), nil)
				return
			}
			reqs = nil
		}
		txs := [][]byte{ptxs[0]}
		for _, it := range items {
			txs = append(txs, it.raw)
		}
		for _, mb := range rawMutants {
			if len(txs) < 16 {
				txs = append(txs, mb)
			}
		}
		// a mutated block message now and then (re-signed by the validator)
		if r.Intn(4) == 0 {
			if p := world.DecodeBlockTx(w, ptxs); p != nil {
				pm := &goatxtypes.MsgNewEthBlock{Proposer: w.ValAddrStr(0), Payload: p}
				if m, op, ok := reparse(r, pm); ok {
					mm := m.(*goatxtypes.MsgNewEthBlock)
					mm.Proposer = w.ValAddrStr(0)
					if tx, err := ch.BlockTx(0, h, mm.Proposer, mm.Payload); err == nil {
						record("ProcessProposal mutated block message "+op, tx)
						okp, _ := ch.Process(0, 0, h, t, append([][]byte{tx}, txs[1:]...), lc, nil)
						c.Count("mutated_block_messages_through_process", 1)
						if okp {
							c.Count("mutated_block_messages_accepted", 1)
						}
						c.Eval(1)
					}
				}
			}
		}
		// shape variants of the payload: every byte-array field emptied, one byte, one short, one long; requests and
		// transactions with empty or missing items (the proposal's checks run in goroutines no recover() protects)
		if p := world.DecodeBlockTx(w, ptxs); p != nil && blk%3 == 1 {
			type fld struct {
				name string
				get  func(q *goatxtypes.ExecutionPayload) *[]byte
			}
			flds := []fld{
				{"parent_hash", func(q *goatxtypes.ExecutionPayload) *[]byte { return &q.ParentHash }},
				{"fee_recipient", func(q *goatxtypes.ExecutionPayload) *[]byte { return &q.FeeRecipient }},
				{"state_root", func(q *goatxtypes.ExecutionPayload) *[]byte { return &q.StateRoot }},
				{"receipts_root", func(q *goatxtypes.ExecutionPayload) *[]byte { return &q.ReceiptsRoot }},
				{"logs_bloom", func(q *goatxtypes.ExecutionPayload) *[]byte { return &q.LogsBloom }},
				{"prev_randao", func(q *goatxtypes.ExecutionPayload) *[]byte { return &q.PrevRandao }},
				{"extra_data", func(q *goatxtypes.ExecutionPayload) *[]byte { return &q.ExtraData }},
				{"block_hash", func(q *goatxtypes.ExecutionPayload) *[]byte { return &q.BlockHash }},
				{"beacon_root", func(q *goatxtypes.ExecutionPayload) *[]byte { return &q.BeaconRoot }},
			}
			var shapes []*goatxtypes.ExecutionPayload
			var names []string
			for _, f := range flds {
				orig := *f.get(p)
				for _, ln := range []int{0, 1, len(orig) - 1, len(orig) + 1} {
					if ln < 0 || ln == len(orig) {
						continue
					}
					q := clonePayload(p)
					nb := make([]byte, ln)
					copy(nb, orig)
					*f.get(q) = nb
					if f.name != "block_hash" {
						world.Rehash(q)
					}
					shapes = append(shapes, q)
					names = append(names, fmt.Sprintf("%s of %d bytes", f.name, ln))
				}
			}
			for _, alt := range []struct {
				name string
				f    func(q *goatxtypes.ExecutionPayload)
			}{
				{"no requests at all", func(q *goatxtypes.ExecutionPayload) { q.Requests = nil }},
				{"an empty request in front", func(q *goatxtypes.ExecutionPayload) { q.Requests = append([][]byte{{}}, q.Requests...) }},
				{"an empty request at the end", func(q *goatxtypes.ExecutionPayload) { q.Requests = append(append([][]byte{}, q.Requests...), []byte{}) }},
				{"an empty transaction in front", func(q *goatxtypes.ExecutionPayload) {
					q.Transactions = append([][]byte{{}}, q.Transactions...)
				}},
				{"an empty transaction in place of the first", func(q *goatxtypes.ExecutionPayload) {
					if len(q.Transactions) > 0 {
						q.Transactions = append([][]byte{{}}, q.Transactions[1:]...)
					}
				}},
				{"block number zero", func(q *goatxtypes.ExecutionPayload) { q.BlockNumber = 0 }},
				{"block number 2^64-1", func(q *goatxtypes.ExecutionPayload) { q.BlockNumber = ^uint64(0) }},
				{"timestamp 2^64-1", func(q *goatxtypes.ExecutionPayload) { q.Timestamp = ^uint64(0) }},
			} {
				q := clonePayload(p)
				alt.f(q)
				world.Rehash(q)
				shapes = append(shapes, q)
				names = append(names, alt.name)
			}
			for vi, q := range shapes {
				tx, err := ch.BlockTx(0, h, w.ValAddrStr(0), q)
				if err != nil {
					continue
				}
				record("ProcessProposal payload shape variant: "+names[vi], tx)
				okp, _ := ch.Process(0, 0, h, t, [][]byte{tx}, lc, nil)
				c.Eval(1)
				c.Count("payload_shape_variants_through_process", 1)
				if okp {
					c.Count("payload_shape_variants_accepted", 1)
				}
				c.Nontrivial("payload shape %s accepted=%v", names[vi], okp)
			}
		}
		// structure-level mutants of the payload's system transactions (run in the unrecovered goroutines of ProcessProposal)
		if p := world.DecodeBlockTx(w, ptxs); p != nil && nsys(p) > 0 {
			n := nsys(p)
			var variants []*goatxtypes.ExecutionPayload
			mk := func(keep [][]byte, count int) {
				q := clonePayload(p)
				q.Transactions = append(append([][]byte{}, keep...), p.Transactions[n:]...)
				if count >= 0 {
					q.ExtraData = append([]byte{byte(count)}, q.ExtraData[1:]...)
				}
				world.Rehash(q)
				variants = append(variants, q)
			}
			var bridge, locking [][]byte
			for i := 0; i < n; i++ {
				if st, err := world.DecodeSysTx(p.Transactions[i]); err == nil && st.Module == uint8(goattypes.LockingModule) {
					locking = append(locking, p.Transactions[i])
				} else {
					bridge = append(bridge, p.Transactions[i])
				}
			}
			mk(bridge, len(bridge))       // locking hand-overs withheld
			mk(bridge, -1)                // ... with the count byte left as it was
			mk(locking, len(locking))     // bridge hand-overs withheld
			mk(p.Transactions[:n-1], n-1) // last one withheld
			mk(p.Transactions[:n-1], -1)  // list shorter than the declared count
			mk(p.Transactions[:n], n+3)   // count larger than the list
			mk(nil, 0)                    // everything withheld
			mk(append([][]byte{}, p.Transactions[:n]...), 255)
			for vi, q := range variants {
				tx, err := ch.BlockTx(0, h, w.ValAddrStr(0), q)
				if err != nil {
					continue
				}
				record(fmt.Sprintf("ProcessProposal payload with tampered system transactions (variant %d, %d bridge + %d locking due)", vi, len(bridge), len(locking)), tx)
				okp, _ := ch.Process(0, 0, h, t, [][]byte{tx}, lc, nil)
				c.Eval(1)
				c.Count("tampered_payloads_through_process", 1)
				if len(bridge) > 0 && len(locking) > 0 {
					c.Count("tampered_payloads_with_both_queues_due", 1)
				}
				if okp {
					c.Count("tampered_payloads_accepted", 1)
				}
			}
		}
		record("ProcessProposal", join(txs))
		_, _ = ch.Process(0, 0, h, t, txs, lc, nil)
		record("FinalizeBlock", join(txs))
		blkRes, err := ch.FinalizeAndCommit(0, h, t, txs, lc, world.StepOpts{Reqs: reqs})
		if err != nil {
			var cr *world.ErrCrash
			if errors.As(err, &cr) {
				viol("block processing failed on hostile input: "+errClass(cr.Err.Error()), fmt.Sprintf("%v; requests %+v", cr, reqs), map[string]any{"txs": len(txs)})
			} else {
				c.Inconclusive("finalize: %v", err)
			}
			return
		}
		c.Count("blocks", 1)
		if !blkRes.BlockOK {
			c.Count("blocks_whose_message_failed_on_hostile_requests", 1)
		}
		// ---- twin: the same block with only what succeeded, plus sequence-neutral fillers ----
		_, seqAfter, _ := ch.Account(g.Proposer.Addr)
		passed := int(seqAfter - seq)
		twTxs := [][]byte{txs[0]}
		tnum, tseq, _ := tw.Account(g.Proposer.Addr)
		k := 0
		succeeded := 0
		for i, it := range items {
			res := blkRes.Resp.TxResults[1+i]
			c.Eval(1)
			c.Nontrivial("%s code=%v", it.op, res.Code == 0)
			if res.Code != 0 {
				c.Count("mutated_messages_failed", 1)
				continue
			}
			succeeded++
			c.Count("mutated_messages_succeeded", 1)
			raw, err := w.SignTx(world.TxSpec{Msgs: []sdk.Msg{it.msg}, Priv: g.Proposer.Tx, AccNum: tnum, Seq: tseq + uint64(k)})
			if err != nil {
				c.Inconclusive("twin sign: %v", err)
				return
			}
			twTxs = append(twTxs, raw)
			k++
			if vm, ok := it.msg.(voteMsg); ok {
				bm.accepted(vm)
			}
		}
		for ; k < passed; k++ {
			filler := &relayertypes.MsgAcceptProposerRequest{Proposer: g.Proposer.AddrStr, Epoch: g.Epoch + 77}
			raw, err := w.SignTx(world.TxSpec{Msgs: []sdk.Msg{filler}, Priv: g.Proposer.Tx, AccNum: tnum, Seq: tseq + uint64(k)})
			if err != nil {
				c.Inconclusive("twin filler: %v", err)
				return
			}
			twTxs = append(twTxs, raw)
		}
		if _, err := tw.Apply(blkRes, twTxs); err != nil {
			c.Inconclusive("twin apply: %v", err)
			return
		}
		if d := world.DiffStores(ch.Node(), tw.Node(), world.StoreNames...); len(d) > 0 {
			var ops []string
			for i, it := range items {
				if blkRes.Resp.TxResults[1+i].Code != 0 {
					ops = append(ops, it.op)
				}
			}
			viol("a rejected or failed transaction changed state", fmt.Sprintf("stores %v differ from the twin that executed the block without the %d failed transactions %v (%d succeeded, %d passed the door)", d, len(items)-succeeded+len(rawMutants), ops, succeeded, passed), nil)
			return
		}
		c.Count("twin_store_comparisons", 1)
	}
	c.Sample(map[string]any{"blocks": ch.Height, "doors": []string{"CheckTx", "PrepareProposal (mempool + hostile request lists)", "ProcessProposal", "FinalizeBlock"}})
}

// setProposerAny sets the Proposer field of any relayer/bridge message.
func setProposerAny(m sdk.Msg, p string) {
	v := reflect.ValueOf(m)
	if v.Kind() == reflect.Ptr && !v.IsNil() {
		if f := v.Elem().FieldByName("Proposer"); f.IsValid() && f.Kind() == reflect.String && f.CanSet() {
			f.SetString(p)
		}
	}
}

// c19Requests2 is the structured part of the request-list clause: long histories of request lists that look like real
// traffic (real validators and tokens, amounts relative to what is held: partial unlocks to just below a threshold,
// dust, weights to zero and back, thresholds up and down) mixed with adversarial ones (unknown validators and tokens,
// creates of existing validators), under absences and evidence. Whatever the history, FinalizeBlock must go through.
func c19Requests2(c *vc.Ctx, idx int) {
	if os.Getenv("VERIF_SANITIZER_BUILD") != "" {
		c.Count("request_histories_left_to_the_plain_build", 1)
		return
	}
	r := world.NewRand(c.Seed, "c19req", idx)
	nv := 2 + r.Intn(4)
	cfg := lockCfg{Label: "c19req", NVals: nv, MaxVals: int64(1 + r.Intn(nv+1)), Blocks: c.Pick(70, 160), Protect0: true, Adversarial: idx%2 == 0, JumpTime: idx%3 == 0, TargetPunished: idx%2 == 1, TimeEdges: true,
		W: lockWeights{Create: 15, Lock: 45, Unlock: 50, Claim: 10, Grant: 5, Weight: 25, Threshold: 20, Absent: 25, Evidence: 8, DustLock: 20, BigUnlock: 15},
		Params: func(p *lockingtypes.Params) {
			p.UnlockDuration, p.ExitingDuration = 9*time.Second, 18*time.Second
			p.SignedBlocksWindow, p.MaxMissedPerWindow = 6, 2
			p.DowntimeJailDuration = 15 * time.Second
		}}
	h, err := newLockHist(c, cfg, idx)
	if err != nil {
		c.Inconclusive("setup: %v", err)
		return
	}
	defer h.close()
	h.crashFn = func(cr *world.ErrCrash) {
		c.Violation("block processing failed on a request history: "+errClass(cr.Err.Error()), cr.Error(), h.replay())
	}
	for b := 0; b < cfg.Blocks && !h.failed; b++ {
		if !h.step() {
			break
		}
		c.Eval(1)
		c.Count("request_history_blocks", 1)
		c.Nontrivial("request history: block message ok=%v weights=%d thresholds=%d unlocks=%d", h.blk.BlockOK, len(h.ops.Reqs.Locking.UpdateWeights), len(h.ops.Reqs.Locking.UpdateThresholds), len(h.ops.unlocks))
	}
	h.closing(func() { c.Eval(1) })
	c.Sample(map[string]any{"request_history": true, "validators": nv, "blocks": h.ch.Height, "last_ops": lastN(h.opsLog, 3)})
}

func init() {
	vc.Register(&vc.Check{
		ID: "C19", Title: "No input can crash the node or halt block processing; failures change nothing", Level: "exploration",
		Rule: "one case = one history (22/70 blocks; fewer on sanitizer builds) in which every block carries up to 11 mutants of well-formed messages of every relayer/bridge type (corpus regenerated for the current state: all five voted kinds with valid quorums, deposits with a genuine SPV proof, finalisation, cancellation approval, acceptance, voter registration), mutated at protobuf level (bit flips, truncation, duplicated/deleted/emptied fields i.e. nil sub-messages, nested mutation, length prefix +-1, 32 KiB fields, odd-length byte fields such as bitmaps and keys, non-canonical varints, inserted bytes), decoded back and re-signed so that they reach the handlers; 3 byte-level mutants of whole transactions; a hostile execution-layer request list (random decodable requests with amounts up to 2^256-1, unknown validators/tokens, 255 typed requests, unknown type bytes, byte-mutated encodings); every fourth block a protobuf-mutated block message and, whenever hand-overs are due, eight structure-level variants of the payload's system transactions (locking or bridge hand-overs withheld, list shorter or longer than the declared count, everything withheld) through ProcessProposal, whose checks run in goroutines no recover() protects; " +
			"all delivered through CheckTx, PrepareProposal, ProcessProposal and FinalizeBlock; plus 12/120 request histories (70/160 blocks, plain build) of structured request lists - real validators and tokens, partial unlocks to just below a threshold, dust, weights to zero and back, threshold changes, mixed with unknown validators/tokens - under absences and evidence, and 8/60 histories with the combined traffic of all modules (bridge workload with every perturbation, relayer membership with registrations of fresh and of already funded addresses, elections, a directed burst of 9..12 withdrawals paid at once together with refunds), where FinalizeBlock must never fail. Oracles: the worker process survives (exit status, no panic/fatal/sanitizer report; last input logged before delivery), FinalizeBlock never errors, and after every block all store hashes equal a twin that executed only what succeeded (failed transactions replaced by sequence-neutral fillers). Runs on the plain, -race (checkptr) and -asan builds. Non-trivial = a mutant that still decodes as a message and reaches FinalizeBlock; distinct = (message type, operator, verdict).",
		Assume: []string{"block-level failures of the block message caused by hostile request lists are allowed (the message fails, the block is processed)", "mutants are reached only as far as they still decode"},
		Cases:  func(tier string) int { return map[string]int{"quick": 8 + 12 + 8, "thorough": 64 + 120 + 60}[tier] },
		Run: func(c *vc.Ctx, i int) {
			nMut := map[string]int{"quick": 8, "thorough": 64}[c.Tier]
			nReq := map[string]int{"quick": 12, "thorough": 120}[c.Tier]
			switch {
			case i < nMut:
				c19Case(c, i)
			case i < nMut+nReq:
				c19Requests2(c, i-nMut)
			default:
				// histories with the traffic of all modules at once (locking, bridge with every perturbation, relayer membership
				// with registrations of fresh and of already funded addresses, elections): block processing must never fail
				combinedHistory(c, i-nMut-nReq, "c19x", c.Pick(70, 160), func(cfg *lockCfg) { cfg.Adversarial = true }, func(h *lockHist) (func(), func()) {
					h.crashFn = func(cr *world.ErrCrash) {
						c.Violation("block processing failed on a request history: "+errClass(cr.Err.Error()), cr.Error(), h.replay())
					}
					return func() { c.Eval(1) }, nil
				})
			}
		},
	})
}
