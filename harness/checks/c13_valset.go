package checks

import (
	"bytes"
	"fmt"
	"sort"
	"strings"

	"cosmossdk.io/math"
	cmttypes "github.com/cometbft/cometbft/types"
	lockingtypes "github.com/goatnetwork/goat/x/locking/types"

	"verif/harness/vc"
	"verif/harness/world"
)

// c13After judges the validator-set clauses after one committed block.
func c13After(h *lockHist) {
	c, blk, post := h.c, h.blk, h.post
	c.Eval(1)
	viol := func(sig, detail string) {
		c.Violation(sig, fmt.Sprintf("height %d: %s", blk.Height, detail), h.replay())
	}
	if len(blk.Resp.ValidatorUpdates) > 0 {
		c.Count("blocks_with_validator_updates", 1)
		c.Count("validator_updates", len(blk.Resp.ValidatorUpdates))
	}
	// judge the update list ourselves against the set it applies to (the set of height H+2 before this block's changes)
	if bad := c13BadUpdates(h); bad != "" {
		viol("validator update not acceptable to CometBFT: "+bad, fmt.Sprintf("updates %v (CometBFT says: %v)", c13Ups(blk), blk.VsetErr))
		h.failed = true
		return
	}
	if blk.VsetErr != nil {
		if strings.Contains(blk.VsetErr.Error(), "empty set") {
			// every change was a legitimate removal of a member and nobody is left: the last validator
			// chose to leave. The statement lists no such case; the history simply ends here.
			c.Count("histories_ended_by_last_validator_leaving", 1)
			h.failed = true
			return
		}
		viol("validator update rejected by CometBFT: "+errClass(blk.VsetErr.Error()), fmt.Sprintf("updates %v: %v", c13Ups(blk), blk.VsetErr))
		h.failed = true
		return
	}
	// (2) accumulated set == module's record == exported validators
	acc := map[string]int64{}
	for _, v := range h.ch.NextVals.Validators {
		acc[string(v.Address)] = v.VotingPower
	}
	rec := map[string]int64{}
	for _, v := range post.ExpVals {
		rec[string(v.Address)] = v.Power
	}
	if len(acc) != len(rec) {
		viol("accumulated validator updates differ from the module's recorded set", fmt.Sprintf("CometBFT has %d validators, the module records %d", len(acc), len(rec)))
	} else {
		for a, p := range acc {
			if rec[a] != p {
				viol("accumulated validator updates differ from the module's recorded set", fmt.Sprintf("validator %x: CometBFT power %d, module %d", a[:4], p, rec[a]))
				break
			}
		}
	}
	// (3) members: at most K, active, exact positive power
	K := post.Locking.Params.MaxValidators
	if int64(len(rec)) > K {
		viol("validator set larger than the configured maximum", fmt.Sprintf("%d > %d", len(rec), K))
	}
	minPower := int64(-1)
	for a, p := range rec {
		v := post.Validator([]byte(a))
		if v == nil {
			viol("set member without a validator record", fmt.Sprintf("%x", a[:4]))
			continue
		}
		if v.Status != lockingtypes.Active {
			viol("set member is not active", fmt.Sprintf("%x has status %s", a[:4], v.Status))
		}
		if int64(v.Power) != p || p <= 0 {
			viol("set member's power is not its current positive power", fmt.Sprintf("%x: set power %d, validator power %d", a[:4], p, v.Power))
		}
		if minPower < 0 || p < minPower {
			minPower = p
		}
	}
	// eligible non-members
	for i := range post.Locking.Validators {
		v := &post.Locking.Validators[i]
		addr := string(cmttypes.NewValidator(cmtsecpPubOf(v.Pubkey), 1).Address)
		if _, member := rec[addr]; member {
			continue
		}
		if (v.Status == lockingtypes.Pending || v.Status == lockingtypes.Active) && v.Power > 0 {
			if int64(len(rec)) < K {
				viol("eligible validator left out although the set is not full", fmt.Sprintf("%x status %s power %d, set has %d of %d", addr[:4], v.Status, v.Power, len(rec), K))
			} else if int64(v.Power) > minPower {
				viol("non-member has more power than a member", fmt.Sprintf("%x power %d > weakest member %d", addr[:4], v.Power, minPower))
			}
		}
		if v.Status == lockingtypes.Active {
			viol("active validator outside the set", fmt.Sprintf("%x", addr[:4]))
		}
	}
	c.Nontrivial("K=%d members=%d updates=%d validators=%d", K, len(rec), len(blk.Resp.ValidatorUpdates), len(post.Locking.Validators))
}

func errClass(s string) string {
	s = strings.ToLower(s)
	for _, k := range []string{"failed to find validator", "voting power can't be negative", "duplicate entry", "exceeds", "empty", "total voting power"} {
		if strings.Contains(s, k) {
			return k
		}
	}
	if len(s) > 60 {
		s = s[:60]
	}
	return s
}

func cmtsecpPubOf(b []byte) cmtPub { return cmtPub(append([]byte(nil), b...)) }

func c13History(c *vc.Ctx, idx int) {
	r := world.NewRand(c.Seed, "c13cfg", idx)
	K := []int64{1, 2, 3, 5}[idx%4]
	nv := 2 + r.Intn(4)
	var powers []uint64
	for i := 0; i < nv; i++ {
		powers = append(powers, []uint64{5, 5, 10, 20, 100}[r.Intn(5)]) // ties on purpose
	}
	genVals := nv
	if int64(genVals) > K {
		genVals = int(K)
		powers = powers[:genVals]
	}
	sort.Slice(powers, func(i, j int) bool { return powers[i] > powers[j] })
	cfg := lockCfg{Label: "c13", NVals: genVals, Powers: powers, MaxVals: K, Blocks: c.Pick(60, 150), Protect0: true, Adversarial: idx%3 == 2, HugeWeights: idx%4 == 3,
		W: lockWeights{Create: 22, Lock: 45, Unlock: 30, Claim: 5, Grant: 5, Weight: 12, Threshold: 10, Absent: 12, Evidence: 6, DustLock: 25, BigUnlock: 15}}
	h, err := newLockHist(c, cfg, idx)
	if err != nil {
		c.Inconclusive("setup: %v", err)
		return
	}
	defer h.close()
	h.crashFn = func(cr *world.ErrCrash) {
		c.Violation("begin/end-of-block logic failed: "+errClass(cr.Err.Error()), cr.Error(), h.replay())
	}
	for b := 0; b < cfg.Blocks && !h.failed; b++ {
		if cfg.HugeWeights && b == 5 && len(h.vals) > 1 && h.post != nil {
			// directed: validator 1 misses enough blocks to be jailed early on; once the jail is over the workload offers it a
			// lock far over the power bound (lockhist: huge_locks_for_validators_whose_jail_is_over)
			h.absentRun[1] = int(h.post.Locking.Params.MaxMissedPerWindow) + 1
		}
		if !h.step() {
			return
		}
		c13After(h)
	}
	h.closing(func() { c13After(h) })
	c.Sample(map[string]any{"max_validators": K, "genesis_powers": powers, "blocks": h.ch.Height, "validators_at_end": len(h.post.Locking.Validators), "last_ops": lastN(h.opsLog, 4)})
}

// c13Bounds: "no total-power overflow" over the configurations the module itself accepts. The real parameter validation
// is asked for the largest validator-set size it lets through, the real power arithmetic for the largest power one
// validator can reach (adding one unit at a time would take forever: AddPower is probed at the edges), and a set of that
// size at that power is handed to a real CometBFT validator set the way a full active set would be.
func c13Bounds(c *vc.Ctx) {
	p := lockingtypes.DefaultParams()
	maxK := int64(0)
	for k := int64(1); k <= 4096; k++ {
		p.MaxValidators = k
		if p.Validate() == nil {
			maxK = k
		}
	}
	c.Eval(1)
	c.Count("largest_validator_set_size_the_parameters_accept", int(maxK))
	// the largest power AddPower lets a validator reach
	top := uint64(0)
	for _, cand := range []uint64{lockingtypes.MaxValidatorPower, lockingtypes.MaxValidatorPower + 1, 1 << 60, 1 << 62, 1<<63 - 1} {
		if v, ok := lockingtypes.AddPower(0, math.NewIntFromUint64(cand)); ok && v > top {
			top = v
		}
		if v, ok := lockingtypes.AddPower(cand-1, math.NewInt(1)); ok && v > top {
			top = v
		}
	}
	c.Nontrivial("bounds maxK=%d top=%d", maxK, top)
	if maxK == 0 || top == 0 {
		c.Inconclusive("could not probe the bounds (largest set size %d, largest power %d)", maxK, top)
		return
	}
	var ups []*cmttypes.Validator
	for i := int64(0); i < maxK; i++ {
		ups = append(ups, cmttypes.NewValidator(world.NewValKey(c.Seed, "c13bounds", int(i)).Priv.PubKey(), int64(top)))
	}
	vs := cmttypes.NewValidatorSet(nil)
	if err := vs.UpdateWithChangeSet(ups); err != nil {
		c.Violation("a full validator set at the largest power the module allows is not acceptable to CometBFT: "+errClass(err.Error()),
			fmt.Sprintf("%d validators (the largest size the parameters accept) x power %d (the largest AddPower allows): %v", maxK, top, err), map[string]any{"max_validators": maxK, "max_power": top})
	}
	c.Count("bound_probes", 1)
}

func init() {
	vc.Register(&vc.Check{
		ID: "C13", Title: "Validator set is the top-K by power; every update is acceptable to CometBFT", Level: "exploration",
		Rule: "one case = one history (60/150 blocks) with max validators K in {1,2,3,5}, tied genesis powers, frequent creates, locks (25% dust that rounds to power 0), unlocks (to and below thresholds), " +
			"weight changes (to 0 and back), threshold changes, absences and evidence, every third history with adversarial request lists; after every commit the returned ValidatorUpdates are applied to a real cometbft ValidatorSet " +
			"(two heights later, as CometBFT does) and the monitor checks: the update was accepted, accumulated set = module record = exported validators, <= K members all active with their exact positive power, no eligible non-member stronger than a member or left out of a non-full set, FinalizeBlock never fails. " +
			"Non-trivial = every committed block; distinct = (K, members, updates in the block, validators known).",
		Assume: []string{"the harness applies updates with cometbft/types.ValidatorSet.UpdateWithChangeSet exactly as CometBFT's state machine does", "validator 0 (the proposing node) is never punished"},
		Cases:  func(tier string) int { return map[string]int{"quick": 48 + 8 + 1, "thorough": 320 + 60 + 1}[tier] },
		Run: func(c *vc.Ctx, i int) {
			if last := map[string]int{"quick": 48 + 8, "thorough": 320 + 60}[c.Tier]; i == last {
				c13Bounds(c)
				return
			}
			if base := map[string]int{"quick": 48, "thorough": 320}[c.Tier]; i >= base {
				combinedHistory(c, i-base, "c13x", c.Pick(60, 150), nil, func(h *lockHist) (func(), func()) {
					h.crashFn = func(cr *world.ErrCrash) {
						c.Violation("begin/end-of-block logic failed: "+errClass(cr.Err.Error()), cr.Error(), h.replay())
					}
					return func() { c13After(h) }, nil
				})
				return
			}
			c13History(c, i)
		},
	})
}

var _ = bytes.Equal

func c13Ups(blk *world.Block) []string {
	var ups []string
	for _, u := range blk.Resp.ValidatorUpdates {
		ups = append(ups, fmt.Sprintf("{%x power %d}", u.PubKey.GetSecp256K1()[:4], u.Power))
	}
	return ups
}

// c13BadUpdates checks the clauses the statement lists: no removal of a non-member, no zero-power
// addition, no duplicate, no total-power overflow. prev is the set the changes apply to.
func c13BadUpdates(h *lockHist) string {
	prev := h.prevNext
	seen := map[string]bool{}
	total := int64(0)
	members := map[string]int64{}
	if prev != nil {
		for _, v := range prev.Validators {
			members[string(v.Address)] = v.VotingPower
		}
	}
	for _, u := range h.blk.Resp.ValidatorUpdates {
		addr := string(cmtsecpPubOf(u.PubKey.GetSecp256K1()).Address())
		if seen[addr] {
			return "duplicate entry"
		}
		seen[addr] = true
		_, isMember := members[addr]
		if u.Power == 0 && !isMember {
			return "removal of a non-member (zero-power addition)"
		}
		if u.Power < 0 {
			return "negative power"
		}
		if u.Power == 0 {
			delete(members, addr)
		} else {
			members[addr] = u.Power
		}
	}
	for _, p := range members {
		total += p
		if total > cmttypes.MaxTotalVotingPower || total < 0 {
			return "total voting power overflow"
		}
	}
	return ""
}
