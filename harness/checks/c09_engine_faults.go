package checks

import (
	"bytes"
	"errors"
	"fmt"
	"math/big"
	"strings"
	"time"

	abci "github.com/cometbft/cometbft/abci/types"
	"github.com/ethereum/go-ethereum/common"
	"github.com/ethereum/go-ethereum/core/types/goattypes"
	goatxtypes "github.com/goatnetwork/goat/x/goat/types"
	lockingtypes "github.com/goatnetwork/goat/x/locking/types"

	"verif/harness/vc"
	"verif/harness/world"
)

// C09: fault enumeration over (engine call site x fault kind), injected at several heights.

type c09Cell struct {
	Site   string // prepare/fcuAttr, prepare/getPayload, process/newPayload, finalize/newPayload, finalize/fcu
	Kind   string
	Method string
	Phase  string
}

func c09Cells() (cells []c09Cell, skipped []string) {
	sites := []struct{ site, method, phase string }{
		{"prepare/forkchoiceUpdated", "fcuAttr", "prepare"},
		{"prepare/getPayload", "getPayload", "prepare"},
		{"process/newPayload", "newPayload", "process"},
		{"end-block/newPayload", "newPayload", "finalize"},
		{"end-block/forkchoiceUpdated", "fcu", "finalize"},
	}
	kinds := []string{"error", "drop", "INVALID", "SYNCING", "ACCEPTED", "INVALID+id", "SYNCING+id", "ACCEPTED+id", "nilid", "unknownid", "delay"}
	for _, s := range sites {
		for _, k := range kinds {
			ok := true
			switch {
			case (k == "nilid" || k == "unknownid" || strings.HasSuffix(k, "+id")) && s.method != "fcuAttr":
				ok = false // only a payload-building call returns a payload id
			case s.method == "getPayload" && (k == "INVALID" || k == "SYNCING" || k == "ACCEPTED"):
				ok = false // getPayload has no status
			case k == "delay" && s.phase != "prepare":
				ok = false // only proposal building has a deadline (1.2 s)
			}
			if !ok {
				skipped = append(skipped, s.site+"/"+k)
				continue
			}
			cells = append(cells, c09Cell{s.site, k, s.method, s.phase})
		}
	}
	return
}

type c09Run struct {
	c      *vc.Ctx
	ch, tw *world.Chain
	ops    []string
	head   *goatxtypes.ExecutionPayload // recorded head by the generator's ground truth
	parent []byte
}

func (r *c09Run) logf(f string, a ...any) {
	r.ops = append(r.ops, fmt.Sprintf("h=%d ", r.ch.Height+1)+fmt.Sprintf(f, a...))
}

func (r *c09Run) viol(sig, detail string) {
	r.c.Violation(sig, fmt.Sprintf("height %d: %s", r.ch.Height, detail), map[string]any{"ops": lastN(r.ops, 40)})
}

func exportOf(n *world.Node) (string, []byte, int64, error) {
	s, err := n.Snapshot()
	if err != nil {
		return "", nil, 0, err
	}
	return string(s.Export), s.AppHash, s.Height, nil
}

// requests for height h: a little of everything so that queues fill and the validator set changes.
func (r *c09Run) reqs(h int64, w *world.World, created *[]world.ValKey) *world.Requests {
	q := &world.Requests{Gas: big.NewInt(1000 + h)}
	v1 := common.BytesToAddress(w.Vals[1].Cons)
	switch h % 6 {
	case 1:
		q.Locking.Claims = []*goattypes.ClaimRequest{{Id: uint64(h), Validator: v1, Recipient: common.HexToAddress("0x01")}, {Id: uint64(h) + 1000, Validator: common.BytesToAddress(w.Vals[0].Cons), Recipient: common.HexToAddress("0x02")}}
	case 2:
		for k := 0; k < 3; k++ {
			q.Locking.Unlocks = append(q.Locking.Unlocks, &goattypes.UnlockRequest{Id: uint64(h*10) + uint64(k), Validator: v1, Recipient: common.HexToAddress("0x03"), Token: common.Address{}, Amount: big.NewInt(1000)})
		}
	case 3:
		k := world.NewValKey(r.c.Seed, "c09-created", int(h))
		*created = append(*created, k)
		q.Locking.Creates = []*goattypes.CreateRequest{{Validator: common.BytesToAddress(k.Cons), Pubkey: uncompressed64(k)}}
		q.Locking.Locks = []*goattypes.LockRequest{{Validator: common.BytesToAddress(k.Cons), Token: common.Address{}, Amount: new(big.Int).Mul(pow10(18), big.NewInt(3+h))}}
	case 4:
		q.Locking.Locks = []*goattypes.LockRequest{{Validator: v1, Token: common.Address{}, Amount: pow10(18)}}
		q.Bridge.Withdraws = []*goattypes.WithdrawalRequest{{Id: uint64(h), Amount: 50000, TxPrice: 5, Address: "not-an-address"}}
	}
	return q
}

// checkHead verifies clause (1) and (2) on a committed block.
func (r *c09Run) checkHead(blk *world.Block, expectAdvance bool) {
	c := r.c
	c.Eval(1)
	var tip goatxtypes.QueryEthBlockTipResponse
	if err := r.ch.Node().Query("/goat.goat.v1.Query/EthBlockTip", &goatxtypes.QueryEthBlockTipRequest{}, &tip); err != nil {
		c.Inconclusive("EthBlockTip: %v", err)
		return
	}
	snap, err := r.ch.Node().Snapshot()
	if err != nil {
		c.Inconclusive("snapshot: %v", err)
		return
	}
	cur := snap.Goat.EthBlock
	prevHash := []byte(nil)
	if r.head != nil {
		prevHash = r.head.BlockHash
	} else {
		prevHash = r.ch.W.EL.Genesis.Bytes()
	}
	if bytes.Equal(cur.BlockHash, prevHash) {
		if blk.BlockOK {
			r.viol("the block message succeeded but the recorded head did not move", "")
		}
	} else {
		p := blk.Payload
		switch {
		case !blk.BlockOK || p == nil:
			r.viol("the recorded execution head changed without a successful block message", fmt.Sprintf("%x -> %x", prevHash[:6], cur.BlockHash[:6]))
		case !bytes.Equal(cur.BlockHash, p.BlockHash):
			r.viol("the recorded head is not the finalised payload", "")
		default:
			prevNum := uint64(0)
			if r.head != nil {
				prevNum = r.head.BlockNumber
			}
			if !bytes.Equal(p.ParentHash, prevHash) || p.BlockNumber != prevNum+1 {
				r.viol("the new head is not a direct child of the previous head", fmt.Sprintf("number %d parent %x, previous head %d %x", p.BlockNumber, p.ParentHash[:6], prevNum, prevHash[:6]))
			}
			if !bytes.Equal(p.FeeRecipient, blk.Proposer) {
				r.viol("the new head was not proposed by the block's consensus proposer", "")
			}
			if p.BlobGasUsed != 0 {
				r.viol("a payload with blob gas became head", fmt.Sprint(p.BlobGasUsed))
			}
			if !bytes.Equal(p.BeaconRoot, r.parent) {
				r.viol("the new head does not carry the previous consensus block hash as beacon root", fmt.Sprintf("%x vs %x", p.BeaconRoot, r.parent))
			}
			if !bytes.Equal(snap.Goat.BeaconRoot, blk.Req.Hash) {
				r.viol("the stored beacon root is not the finalising block's hash", "")
			}
			r.head = p
			r.parent = blk.Req.Hash
			c.Count("head_advances_checked", 1)
		}
	}
	if tip.Block.BlockNumber != cur.BlockNumber || !bytes.Equal(tip.Block.BlockHash, cur.BlockHash) {
		r.viol("Query/EthBlockTip differs from the recorded head", fmt.Sprintf("%d %x vs %d %x", tip.Block.BlockNumber, tip.Block.BlockHash, cur.BlockNumber, cur.BlockHash))
	}
	// (2) engine calls at the end of the block
	calls := blk.ELCalls
	if len(calls) != 2 || calls[0].Method != "newPayload" || calls[1].Method != "fcu" {
		var ms []string
		for _, cl := range calls {
			ms = append(ms, cl.Method)
		}
		r.viol("unexpected engine calls while finalising", fmt.Sprint(ms))
		return
	}
	if !bytes.Equal(calls[0].Head[:], cur.BlockHash) {
		r.viol("the engine was not told the recorded head at the end of the block", fmt.Sprintf("newPayload %x, recorded %x", calls[0].Head[:6], cur.BlockHash[:6]))
	}
	if !bytes.Equal(calls[1].Head[:], cur.BlockHash) || !bytes.Equal(calls[1].Safe[:], cur.ParentHash) || !bytes.Equal(calls[1].Final[:], cur.ParentHash) {
		r.viol("fork choice is not (head = recorded head, safe = finalized = its parent)", fmt.Sprintf("head %x safe %x final %x; recorded %x parent %x", calls[1].Head[:6], calls[1].Safe[:6], calls[1].Final[:6], cur.BlockHash[:6], cur.ParentHash[:6]))
	}
	c.Count("end_of_block_engine_calls_checked", 1)
}

// faultyHeight runs one height with the fault of cell armed at its site, judges, then completes the height fault-free.
func (r *c09Run) faultyHeight(cell c09Cell, reqs *world.Requests) bool {
	c, ch, tw := r.c, r.ch, r.tw
	n := ch.Nodes[0]
	h := ch.Height + 1
	t := ch.Now.Add(3 * time.Second)
	lc := ch.LastCommitInfo(nil)
	preExp, preHash, preH, err := exportOf(n)
	if err != nil {
		c.Inconclusive("export: %v", err)
		return false
	}
	mk := func() *world.Fault {
		return &world.Fault{Method: cell.Method, Phase: cell.Phase, Kind: cell.Kind, Delay: 1500 * time.Millisecond, Sticky: cell.Phase != "finalize"}
	}
	untouched := func(what string) {
		e, ah, hh, err := exportOf(ch.Nodes[0])
		if err != nil {
			c.Inconclusive("export: %v", err)
			return
		}
		if e != preExp || !bytes.Equal(ah, preHash) || hh != preH {
			r.viol("an engine fault while "+what+" changed committed state", fmt.Sprintf("fault %s/%s", cell.Site, cell.Kind))
		}
		c.Count("state_untouched_checks", 1)
	}
	r.logf("fault %s/%s", cell.Site, cell.Kind)
	c.Eval(1)
	c.Nontrivial("site=%s kind=%s height_class=%d", cell.Site, cell.Kind, h%6)
	var txs [][]byte
	switch cell.Phase {
	case "prepare":
		n.EL.AddFault(mk())
		_, perr := ch.Prepare(0, h, t, reqs)
		n.EL.ClearFaults()
		if perr == nil {
			r.viol("a proposal was built although the engine misbehaved: "+cell.Site+"/"+cell.Kind, "")
		} else {
			c.Count("prepare_faults_refused", 1)
		}
		untouched("proposing")
		txs, err = ch.Prepare(0, h, t, reqs)
		if err != nil {
			r.viol("no proposal could be built after the engine fault cleared", err.Error())
			return false
		}
	case "process":
		txs, err = ch.Prepare(0, h, t, reqs)
		if err != nil {
			c.Inconclusive("prepare: %v", err)
			return false
		}
		n.EL.AddFault(mk())
		ok, _ := ch.Process(0, 0, h, t, txs, lc, nil)
		n.EL.ClearFaults()
		if ok {
			r.viol("a proposal was accepted although the engine did not report VALID: "+cell.Kind, "")
		} else {
			c.Count("process_faults_refused", 1)
		}
		untouched("checking a proposal")
	default:
		txs, err = ch.Prepare(0, h, t, reqs)
		if err != nil {
			c.Inconclusive("prepare: %v", err)
			return false
		}
	}
	if ok, _ := ch.Process(0, 0, h, t, txs, lc, nil); !ok {
		r.viol("the honest proposal was rejected after the engine fault cleared", "")
		return false
	}
	if cell.Phase == "finalize" {
		mustFail := cell.Kind == "error" || cell.Kind == "drop" || cell.Kind == "INVALID"
		// two times out of three a fatal fault meets a block that does not move the execution head (its block message is absent):
		// the engine is told the unchanged head all the same, and its failure stops the block all the same
		ftxs, headStays := txs, ""
		if mustFail && h%3 != 0 && len(txs) > 0 {
			ftxs, headStays = txs[1:], " (block without a block message)"
			c.Count("end_block_faults_on_blocks_without_a_block_message", 1)
		}
		n.EL.AddFault(mk())
		blk, ferr := ch.FinalizeAndCommit(0, h, t, ftxs, lc, world.StepOpts{Reqs: reqs})
		n.EL.ClearFaults()
		var cr *world.ErrCrash
		switch {
		case ferr == nil && mustFail:
			r.viol("the block was committed although the engine failed at the end of the block: "+cell.Site+"/"+cell.Kind+headStays, "")
			if _, err := tw.Apply(blk, blk.Req.Txs); err != nil {
				c.Inconclusive("twin: %v", err)
				return false
			}
			r.checkHead(blk, true)
			return true
		case ferr == nil:
			c.Count("end_block_non_fatal_statuses_committed", 1)
			if _, err := tw.Apply(blk, blk.Req.Txs); err != nil {
				c.Inconclusive("twin: %v", err)
				return false
			}
			r.checkHead(blk, true)
			return true
		case errors.As(ferr, &cr):
			c.Count("end_block_faults_aborted_the_block", 1)
			if h%2 == 0 {
				// CometBFT halts; the operator restarts the node: nothing of the block may have persisted
				nn, err := n.Restart()
				if err != nil {
					c.Inconclusive("restart: %v", err)
					return false
				}
				ch.Nodes[0] = nn
				untouched("finalising (after restart from disk)")
			} else {
				// the application keeps running (it may be a process of its own) and is handed the block again: the proposal
				// is checked once more, which also resets the SDK's block state, then finalised. Nothing the failed attempt
				// left in memory may change the outcome.
				c.Count("end_block_faults_retried_in_the_same_process", 1)
				untouched("finalising (same process)")
				if ok, _ := ch.Process(0, 0, h, t, txs, lc, nil); !ok {
					r.viol("the honest proposal was rejected when the block was retried after an engine fault at the end of the block", fmt.Sprintf("fault %s/%s", cell.Site, cell.Kind))
					return false
				}
			}
		default:
			c.Inconclusive("finalize: %v", ferr)
			return false
		}
	}
	// the height completes fault-free; the result must be what a fault-free twin computes
	blk, err := ch.FinalizeAndCommit(0, h, t, txs, lc, world.StepOpts{Reqs: reqs})
	if err != nil {
		r.viol("the block could not be executed after the engine fault cleared", err.Error())
		return false
	}
	tb, err := tw.Apply(blk, blk.Req.Txs)
	if err != nil {
		c.Inconclusive("twin: %v", err)
		return false
	}
	if !bytes.Equal(tb.Resp.AppHash, blk.Resp.AppHash) {
		r.viol("retrying after an engine fault gives another result than a fault-free run", fmt.Sprintf("fault %s/%s: %x vs twin %x", cell.Site, cell.Kind, blk.Resp.AppHash, tb.Resp.AppHash))
	}
	c.Count("retries_compared_with_fault_free_twin", 1)
	r.checkHead(blk, true)
	return true
}

func c09Case(c *vc.Ctx, idx int) {
	cells, _ := c09Cells()
	hist := idx / len(cells)
	cell := cells[idx%len(cells)]
	random := false
	if c.Thorough() && idx >= 3*len(cells) || !c.Thorough() && idx >= len(cells) {
		random = true
	}
	w, err := world.New(world.Config{Seed: c.Seed, Label: fmt.Sprintf("c09-%d", idx), NVals: 2, DiskDB: true,
		Locking: func(g *lockingtypes.GenesisState) {
			g.Params.UnlockDuration = 6 * time.Second
			g.Params.ExitingDuration = 9 * time.Second
			g.Params.MaxValidators = 4
		}})
	if err != nil {
		c.Inconclusive("world: %v", err)
		return
	}
	ch, err := world.NewChain(w)
	if err != nil {
		c.Inconclusive("chain: %v", err)
		w.Cleanup()
		return
	}
	defer ch.Close()
	tw, err := world.NewChain(w)
	if err != nil {
		c.Inconclusive("twin: %v", err)
		return
	}
	defer func() {
		for _, n := range tw.Nodes {
			n.Close()
		}
	}()
	r := &c09Run{c: c, ch: ch, tw: tw, parent: make([]byte, 32)}
	rnd := world.NewRand(c.Seed, "c09", idx)
	var created []world.ValKey
	faultAt := map[int64]bool{2: true, 3: true, 5: true, 8: true, 11: true}
	blocks := int64(13)
	for h := int64(1); h <= blocks; h++ {
		reqs := r.reqs(h+int64(hist), w, &created)
		inject := faultAt[h]
		cl := cell
		if random {
			inject = rnd.Intn(2) == 0 && h > 1
			cl = cells[rnd.Intn(len(cells))]
		}
		if h == 7 && !random {
			// a payload with blob gas looks honest to ProcessProposal but must not become head
			ch.Nodes[0].EL.BlobGas = 131072
			blk, err := ch.Step(world.StepOpts{Reqs: reqs})
			ch.Nodes[0].EL.BlobGas = 0
			if err != nil {
				var rj *world.ErrRejected
				if errors.As(err, &rj) {
					c.Count("blob_gas_payload_refused_at_process", 1)
					continue
				}
				r.viol("block processing failed on a payload with blob gas", err.Error())
				return
			}
			if _, err := tw.Apply(blk, blk.Req.Txs); err != nil {
				c.Inconclusive("twin: %v", err)
				return
			}
			if blk.BlockOK {
				r.viol("a payload with blob gas was executed", "")
			}
			c.Count("blob_gas_payloads_offered", 1)
			r.checkHead(blk, false)
			continue
		}
		if (h == 9 && !random) || (random && h > 2 && rnd.Intn(6) == 0) {
			// payloads that are not a direct child of the recorded head, not by this block's proposer or under another beacon
			// root, forced into FinalizeBlock past ProcessProposal (as block-sync and replay do): none may become head
			type nonChild struct {
				name string
				prop int
				f    func(p *goatxtypes.ExecutionPayload) bool
			}
			vars := []nonChild{
				{"number+2", 0, func(p *goatxtypes.ExecutionPayload) bool { p.BlockNumber++; return true }},
				{"number of the head itself", 0, func(p *goatxtypes.ExecutionPayload) bool { p.BlockNumber--; return true }},
				{"parent = grandparent", 0, func(p *goatxtypes.ExecutionPayload) bool {
					if r.head == nil {
						return false
					}
					p.ParentHash = append([]byte(nil), r.head.ParentHash...)
					return true
				}},
				{"another beacon root", 0, func(p *goatxtypes.ExecutionPayload) bool {
					b := append([]byte(nil), p.BeaconRoot...)
					b[len(b)-1] ^= 1
					p.BeaconRoot = b
					return true
				}},
				{"parent hash of 33 bytes that converts to the head's hash", 0, func(p *goatxtypes.ExecutionPayload) bool {
					p.ParentHash = append([]byte{0xaa}, p.ParentHash...)
					return true
				}},
				{"beacon root of 33 bytes that converts to the recorded root", 0, func(p *goatxtypes.ExecutionPayload) bool {
					p.BeaconRoot = append([]byte{0x01}, p.BeaconRoot...)
					return true
				}},
				{"authored by the other validator", 1, func(p *goatxtypes.ExecutionPayload) bool {
					p.FeeRecipient = append([]byte(nil), w.Vals[1].Cons...)
					return true
				}},
			}
			if random {
				vars = vars[rnd.Intn(len(vars)):][:1]
			}
			for _, v := range vars {
				v := v
				applied := false
				blk, err := ch.Step(world.StepOpts{Reqs: reqs, NoProcess: true, Mutate: func(txs [][]byte) [][]byte {
					p := world.DecodeBlockTx(w, txs)
					if p == nil || !v.f(p) {
						return txs
					}
					world.Rehash(p)
					tx, err := ch.BlockTx(v.prop, ch.Height+1, w.ValAddrStr(v.prop), p)
					if err != nil {
						return txs
					}
					applied = true
					return append([][]byte{tx}, txs[1:]...)
				}})
				if err != nil {
					r.viol("block processing failed on a payload that is not a child of the head: "+v.name, err.Error())
					return
				}
				if _, err := tw.Apply(blk, blk.Req.Txs); err != nil {
					c.Inconclusive("twin: %v", err)
					return
				}
				if !applied {
					r.checkHead(blk, true)
					continue
				}
				c.Count("non_child_payloads_forced", 1)
				c.Nontrivial("forced non-child payload: %s", v.name)
				if blk.BlockOK {
					r.viol("a payload that is not a valid child of the head was executed: "+v.name, "")
				}
				r.checkHead(blk, false)
			}
			continue
		}
		if inject {
			if !r.faultyHeight(cl, reqs) {
				return
			}
			continue
		}
		blk, err := ch.Step(world.StepOpts{Reqs: reqs})
		if err != nil {
			r.viol("block processing failed without any injected fault", err.Error())
			return
		}
		if _, err := tw.Apply(blk, blk.Req.Txs); err != nil {
			c.Inconclusive("twin: %v", err)
			return
		}
		r.checkHead(blk, true)
	}
	c.Sample(map[string]any{"cell": cell.Site + "/" + cell.Kind, "random_sequence": random, "heights_with_fault": []int64{2, 3, 5, 8, 11}, "last_ops": lastN(r.ops, 5)})
	if idx == 0 {
		c.Exhaustive()
	}
}

func init() {
	cells, skipped := c09Cells()
	vc.Register(&vc.Check{
		ID: "C09", Title: "Execution head advances only by valid child blocks; engine faults commit nothing", Level: "fault_enumeration",
		Rule: fmt.Sprintf("complete enumeration of (engine call site x fault kind): sites prepare/forkchoiceUpdated, prepare/getPayload, process/newPayload, end-block/newPayload, end-block/forkchoiceUpdated; kinds RPC error, connection cut without an answer, INVALID, SYNCING, ACCEPTED, the same three statuses with a payload id attached (payload-building call only), nil payload id, unknown payload id, 1.5 s delay (deadline 1.2 s): %d meaningful cells (%d skipped as not applicable: %v). "+
			"One case = one cell injected at heights 2, 3, 5 (backlog), 8 and 11 (validator changes) of a 13-block history on a goleveldb node with a fault-free twin; thorough adds 2 more histories per cell and random multi-fault sequences. Oracles: a fault while proposing/checking makes PrepareProposal fail / the proposal be rejected and leaves export, app hash and height untouched; an error or INVALID at the end of the block makes FinalizeBlock fail, after which the node is restarted from disk and must show the pre-block export/app hash/height; completing the height fault-free gives the twin's app hash; after every commit the recorded head is unchanged or the finalised payload, a direct child proposed by the block's proposer without blob gas carrying the previous block hash as beacon root, and the engine calls are exactly newPayload(head), forkchoiceUpdated(head, parent, parent). Non-trivial = every injected fault; distinct = (site, kind, height class).",
			len(cells), len(skipped), skipped),
		Assume: []string{"SYNCING/ACCEPTED at the end of a block are allowed to commit (the statement only forbids errors and INVALID)", "crash = the node object is dropped and reopened from its goleveldb directory"},
		Cases: func(tier string) int {
			if tier == "thorough" {
				return 3*len(cells) + 30
			}
			return len(cells) + 6
		},
		Run: func(c *vc.Ctx, i int) { c09Case(c, i) },
	})
}

var _ = abci.Misbehavior{}
