package checks

import (
	"fmt"
	"math/big"
	"strings"
	"time"

	"cosmossdk.io/math"
	abci "github.com/cometbft/cometbft/abci/types"
	cmtproto "github.com/cometbft/cometbft/proto/tendermint/types"
	cmttypes "github.com/cometbft/cometbft/types"
	sdk "github.com/cosmos/cosmos-sdk/types"
	"github.com/ethereum/go-ethereum/common"
	"github.com/ethereum/go-ethereum/core/types/goattypes"
	lockingtypes "github.com/goatnetwork/goat/x/locking/types"

	"verif/harness/vc"
	"verif/harness/world"
)

// c14Mon is the reference model for punishments: miss counters per active validator (windows
// aligned at activation), downtime jail + slash, evidence age filter, tombstoning, jail release.
type c14Mon struct {
	h          *lockHist
	missed     map[int]int64
	offset     map[int]int64
	history    map[int][]bool // absences over the blocks in which the validator was counted
	wasActive  map[int]bool
	tombstoned map[int]int64 // validator -> height of tombstoning
	jailed     map[int]int64
}

func newC14Mon(h *lockHist) *c14Mon {
	return &c14Mon{h: h, missed: map[int]int64{}, offset: map[int]int64{}, history: map[int][]bool{}, wasActive: map[int]bool{}, tombstoned: map[int]int64{}, jailed: map[int]int64{}}
}

func slashOf(a math.Int, frac math.LegacyDec) math.Int {
	s := math.LegacyNewDecFromInt(a).Mul(frac).TruncateInt()
	if s.IsZero() {
		return a
	}
	return s
}

func (m *c14Mon) valIndex(addr []byte) int {
	for i, v := range m.h.vals {
		if string(v.Key.Cons) == string(addr) {
			return i
		}
	}
	return -1
}

func (m *c14Mon) afterBlock() {
	h := m.h
	c, pre, post, blk, ops := h.c, h.pre, h.post, h.blk, h.ops
	c.Eval(1)
	viol := func(sig, detail string) {
		c.Violation(sig, fmt.Sprintf("height %d: %s", blk.Height, detail), h.replay())
	}
	if blk.VsetErr != nil {
		c.Count("histories_ended_by_rejected_validator_update", 1)
		h.failed = true
		return
	}
	prm := pre.Locking.Params
	W, M := prm.SignedBlocksWindow, prm.MaxMissedPerWindow
	expSlash := sdk.Coins{}
	hold := map[int]sdk.Coins{} // holdings as the model sees them while BeginBlock proceeds
	holdOf := func(vi int) sdk.Coins {
		if hc, ok := hold[vi]; ok {
			return hc
		}
		if pv := pre.Validator(h.vals[vi].Key.Cons); pv != nil {
			hold[vi] = pv.Locking
		}
		return hold[vi]
	}
	slash := func(vi int, frac math.LegacyDec) {
		rest := sdk.Coins{}
		for _, cn := range holdOf(vi) {
			s := slashOf(cn.Amount, frac)
			expSlash = expSlash.Add(sdk.NewCoin(cn.Denom, s))
			if r := cn.Amount.Sub(s); r.IsPositive() {
				rest = rest.Add(sdk.NewCoin(cn.Denom, r))
			}
		}
		hold[vi] = rest
	}
	status := map[int]lockingtypes.ValidatorStatus{}
	statusOf := func(vi int) lockingtypes.ValidatorStatus {
		if s, ok := status[vi]; ok {
			return s
		}
		if pv := pre.Validator(h.vals[vi].Key.Cons); pv != nil {
			status[vi] = pv.Status
		}
		return status[vi]
	}
	// --- downtime ---
	jailNow := map[int]bool{}
	for _, v := range blk.Req.DecidedLastCommit.Votes {
		vi := m.valIndex(v.Validator.Address)
		if vi < 0 {
			continue
		}
		if statusOf(vi) != lockingtypes.Active {
			m.wasActive[vi] = false
			continue
		}
		if !m.wasActive[vi] { // (re)activated: counters start afresh
			m.missed[vi], m.offset[vi], m.history[vi] = 0, 0, nil
			m.wasActive[vi] = true
		}
		absent := v.BlockIdFlag == cmtproto.BlockIDFlagAbsent
		m.history[vi] = append(m.history[vi], absent)
		if absent {
			m.missed[vi]++
			c.Count("absent_votes_counted", 1)
		}
		down := m.missed[vi] >= M
		m.offset[vi]++
		if m.offset[vi] >= W {
			m.missed[vi], m.offset[vi] = 0, 0
			c.Count("signing_windows_completed", 1)
		}
		if down {
			jailNow[vi] = true
			slash(vi, prm.SlashFractionDowntime)
			status[vi] = lockingtypes.Downgrade
			m.wasActive[vi] = false
		}
	}
	// what the chain did
	for vi, hv := range h.vals {
		pv, qv := pre.Validator(hv.Key.Cons), post.Validator(hv.Key.Cons)
		if pv == nil || qv == nil {
			continue
		}
		chainJailed := !qv.JailedUntil.Equal(pv.JailedUntil)
		if chainJailed {
			// legit only if active and absent >= M times within the last W counted blocks
			hist := m.history[vi]
			n := 0
			from := len(hist) - int(W)
			if from < 0 {
				from = 0
			}
			for _, a := range hist[from:] {
				if a {
					n++
				}
			}
			if pv.Status != lockingtypes.Active {
				viol("validator that was not active was jailed for downtime", fmt.Sprintf("v%d had status %s", vi, pv.Status))
			} else if int64(n) < M {
				viol("jailed with fewer misses than the maximum within a window", fmt.Sprintf("v%d: %d misses in the last %d counted blocks, maximum %d", vi, n, W, M))
			}
			if want := blk.Time.Add(prm.DowntimeJailDuration); !qv.JailedUntil.Equal(want) {
				viol("wrong jail time", fmt.Sprintf("v%d jailed until %s, expected %s", vi, qv.JailedUntil, want))
			}
			if !jailNow[vi] && pv.Status == lockingtypes.Active && int64(n) >= M {
				// jailed under a sliding-window reading that the aligned model does not share: account the slash
				jailNow[vi] = true
				slash(vi, prm.SlashFractionDowntime)
				status[vi] = lockingtypes.Downgrade
				m.wasActive[vi] = false
				c.Count("jails_under_sliding_window_only", 1)
			}
			m.jailed[vi] = blk.Height
			c.Count("downtime_jails", 1)
		}
		if jailNow[vi] && !chainJailed {
			viol("active validator not jailed after reaching the maximum of missed blocks in one window", fmt.Sprintf("v%d: status %s -> %s", vi, pv.Status, qv.Status))
		}
	}
	// --- evidence ---
	cp := h.ch.W.ConsParams
	for _, e := range ops.Evidence {
		vi := m.valIndex(e.Validator.Address)
		if vi < 0 {
			continue
		}
		ageT, ageB := blk.Time.Sub(e.Time), blk.Height-e.Height
		ignored := cp.Evidence != nil && ageT > cp.Evidence.MaxAgeDuration && ageB > cp.Evidence.MaxAgeNumBlocks
		pv, qv := pre.Validator(h.vals[vi].Key.Cons), post.Validator(h.vals[vi].Key.Cons)
		if pv == nil || qv == nil {
			continue
		}
		c.Nontrivial("evidence age_blocks_over=%v age_time_over=%v status=%s", ageB > cp.Evidence.MaxAgeNumBlocks, ageT > cp.Evidence.MaxAgeDuration, statusOf(vi))
		if ignored {
			c.Count("evidence_older_than_both_limits", 1)
			if qv.Status == lockingtypes.Tombstoned && pv.Status != lockingtypes.Tombstoned {
				already := false
				for _, e2 := range ops.Evidence {
					if string(e2.Validator.Address) == string(e.Validator.Address) && !(blk.Time.Sub(e2.Time) > cp.Evidence.MaxAgeDuration && blk.Height-e2.Height > cp.Evidence.MaxAgeNumBlocks) {
						already = true
					}
				}
				if !already {
					viol("evidence older than both age limits was applied", fmt.Sprintf("v%d tombstoned by evidence of height %d (age %d blocks, %s)", vi, e.Height, ageB, ageT))
				}
			}
			continue
		}
		c.Count("evidence_in_force", 1)
		if statusOf(vi) == lockingtypes.Tombstoned {
			continue
		}
		slash(vi, prm.SlashFractionDoubleSign)
		status[vi] = lockingtypes.Tombstoned
		if qv.Status != lockingtypes.Tombstoned {
			viol("validator with unexpired evidence was not tombstoned", fmt.Sprintf("v%d status %s -> %s, evidence age %d blocks / %s (limits %d / %s)", vi, pv.Status, qv.Status, ageB, ageT, cp.Evidence.MaxAgeNumBlocks, cp.Evidence.MaxAgeDuration))
		} else {
			m.tombstoned[vi] = blk.Height
			c.Count("tombstonings", 1)
		}
	}
	// --- slashed totals: exactly the modelled amounts, nothing else, nothing twice ---
	for _, d := range allDenoms(pre.Locking.Slashed, post.Locking.Slashed, expSlash) {
		got := post.Locking.Slashed.AmountOf(d).Sub(pre.Locking.Slashed.AmountOf(d))
		if !got.Equal(expSlash.AmountOf(d)) {
			viol("slashed total does not match one slash per offence", fmt.Sprintf("token %s: slashed total grew by %s, model expects %s (downtime fraction %s, double-sign fraction %s)", d, got, expSlash.AmountOf(d), prm.SlashFractionDowntime, prm.SlashFractionDoubleSign))
		}
	}
	if !expSlash.IsZero() {
		c.Count("blocks_with_modelled_slash", 1)
	}
	// --- punished validators: no power, no membership; release only per the rules ---
	next := map[string]int64{}
	for _, nv := range h.ch.NextVals.Validators {
		next[string(nv.Address)] = nv.VotingPower
	}
	lockedThisBlock := map[int]bool{}
	if blk.BlockOK {
		for _, l := range ops.locks {
			for vi, hv := range h.vals {
				if hv.Addr == l.Validator {
					lockedThisBlock[vi] = true
				}
			}
		}
	}
	thr := sdk.Coins{}
	for _, t := range post.Locking.Tokens {
		if t.Token.Threshold.IsPositive() {
			thr = thr.Add(sdk.NewCoin(t.Denom, t.Token.Threshold))
		}
	}
	for vi, hv := range h.vals {
		pv, qv := pre.Validator(hv.Key.Cons), post.Validator(hv.Key.Cons)
		if qv == nil {
			continue
		}
		_, member := next[string(hv.Key.Cons)]
		if th, dead := m.tombstoned[vi]; dead {
			if qv.Status != lockingtypes.Tombstoned || qv.Power != 0 || member {
				viol("tombstoned validator came back", fmt.Sprintf("v%d tombstoned at height %d now has status %s power %d member=%v", vi, th, qv.Status, qv.Power, member))
			}
			c.Count("tombstoned_validator_blocks_checked", 1)
			continue
		}
		if qv.Status == lockingtypes.Downgrade && (qv.Power != 0 || member) {
			viol("jailed validator keeps voting power or membership", fmt.Sprintf("v%d power %d member=%v", vi, qv.Power, member))
		}
		if pv != nil && statusOf(vi) == lockingtypes.Downgrade && (qv.Status == lockingtypes.Pending || qv.Status == lockingtypes.Active) {
			ju := pv.JailedUntil
			if jailNow[vi] {
				ju = blk.Time.Add(prm.DowntimeJailDuration)
			}
			switch {
			case !lockedThisBlock[vi]:
				viol("jailed validator released without a lock request", fmt.Sprintf("v%d", vi))
			case blk.Time.Before(ju): // a release exactly at the jail end is after 'the jail time has passed' in the statement's wording
				viol("jailed validator released before the jail time has passed", fmt.Sprintf("v%d released at %s, jailed until %s", vi, blk.Time.Format(time.RFC3339Nano), ju.Format(time.RFC3339Nano)))
			case !qv.Locking.IsAllGTE(thr) && len(opsUnlocksFor(ops, vi)) == 0:
				viol("jailed validator released without meeting every threshold", fmt.Sprintf("v%d holds %s, thresholds %s", vi, qv.Locking, thr))
			default:
				c.Count("jail_releases", 1)
			}
		}
		if pv != nil && pv.Status == lockingtypes.Downgrade && qv.Status == lockingtypes.Downgrade && lockedThisBlock[vi] {
			if !blk.Time.After(pv.JailedUntil) {
				c.Count("locks_on_jailed_validator_before_release_time", 1)
				if blk.Time.Equal(pv.JailedUntil) {
					c.Count("locks_exactly_at_jail_end", 1)
				}
			}
		}
	}
	c.Nontrivial("jails=%d evid=%d absent=%d", len(jailNow), len(ops.Evidence), len(ops.Absent))
}

func opsUnlocksFor(o *blockOps, vi int) []*unlockRec {
	var out []*unlockRec
	for _, u := range o.unlocks {
		if u.Val == vi {
			out = append(out, u)
		}
	}
	return out
}

func allDenoms(cs ...sdk.Coins) []string {
	m := map[string]bool{}
	for _, c := range cs {
		for _, x := range c {
			m[x.Denom] = true
		}
	}
	var out []string
	for d := range m {
		out = append(out, d)
	}
	return out
}

func c14History(c *vc.Ctx, idx int) {
	r := world.NewRand(c.Seed, "c14cfg", idx)
	nv := 3 + r.Intn(3)
	maxVals := int64(nv + 2)
	if idx%3 == 2 {
		maxVals = 2 // fewer seats than candidates: members are demoted while CometBFT still lists them in the last commit
	}
	rotation := idx%8 == 7
	var powers []uint64
	if rotation {
		// directed scenario (below): two seats, validator 1 holds the second one, validator 2 is the strongest candidate outside
		maxVals = 2
		powers = []uint64{300, 120, 100, 90, 90}[:nv]
	}
	cfg := lockCfg{Label: "c14", NVals: nv, MaxVals: maxVals, Powers: powers, Blocks: c.Pick(80, 200), Protect0: true, JumpTime: idx%3 == 0, TargetPunished: true, EvidenceAges: true, TimeEdges: true,
		W: lockWeights{Create: 6, Lock: 55, Unlock: 20, Claim: 2, Weight: 4, Threshold: 5, Absent: 45, Evidence: 9, DustLock: 10},
		Params: func(p *lockingtypes.Params) {
			p.SignedBlocksWindow = int64(6 + r.Intn(5))
			p.MaxMissedPerWindow = int64(2 + r.Intn(3))
			p.DowntimeJailDuration = time.Minute
			switch idx % 7 {
			case 5:
				p.DowntimeJailDuration = 0 // no jail time at all: a lock in any later block may release
			case 6:
				p.DowntimeJailDuration = time.Nanosecond
			}
			if idx%4 == 1 {
				p.SlashFractionDowntime = math.LegacyNewDecWithPrec(1, 18) // truncates to zero on small holdings: everything is slashed
			}
		},
		Cons: func(cp *cmttypes.ConsensusParams) {
			cp.Evidence.MaxAgeNumBlocks = 4
			cp.Evidence.MaxAgeDuration = 15 * time.Second
		}}
	h, err := newLockHist(c, cfg, idx)
	if err != nil {
		c.Inconclusive("setup: %v", err)
		return
	}
	defer h.close()
	mon := newC14Mon(h)
	h.crashFn = func(cr *world.ErrCrash) {
		if e := cr.Err.Error(); strings.Contains(e, "in power ranking") && (strings.Contains(e, "DOWNGRADE") || strings.Contains(e, "TOMBSTONED")) {
			// the module itself says so: a jailed or tombstoned validator sits in the power ranking, i.e. it was given voting power
			c.Violation("a punished validator was ranked with voting power: "+errClass(e), cr.Error(), h.replay())
			return
		}
		c.Inconclusive("FinalizeBlock failed (reported under C13): %v", cr)
	}
	directed := idx%4 == 3 && !rotation
	w0 := h.cfg.W
	if rotation {
		// directed scenario: validator 1 misses one block less than the maximum, is then rotated out by validator 2 (a lock
		// makes it stronger), comes back when validator 2 unlocks again, and misses one more block: a validator that
		// re-enters the set starts with a clean signing record, so it must not be jailed
		h.cfg.W = lockWeights{Claim: 5}
		h.cfg.JumpTime = false
	}
	if directed {
		// directed scenario: validator 1 misses the maximum in a row, is jailed for 60 s = 20 blocks, and gets a
		// lock request in every block from 3 before to 3 after the end of the jail (one lands exactly at it)
		h.cfg.W = lockWeights{Absent: 0, Lock: 0, Claim: 5}
		h.cfg.JumpTime = false
		h.absentRun[1] = int(h.post.Locking.Params.MaxMissedPerWindow) + 1
	}
	for b := 0; b < cfg.Blocks && !h.failed; b++ {
		if rotation {
			M := int(h.post.Locking.Params.MaxMissedPerWindow)
			big30 := new(big.Int).Mul(pow10(18), big.NewInt(30))
			switch b - 4 {
			case 0:
				h.absentRun[1] = M - 1
			case M + 1:
				h.extra = func(o *blockOps) {
					lr := &goattypes.LockRequest{Validator: h.vals[2].Addr, Token: tokBTC, Amount: big30}
					o.Reqs.Locking.Locks = append(o.Reqs.Locking.Locks, lr)
					o.locks = append(o.locks, lr)
					o.Desc = append(o.Desc, "lock v2: stronger than v1, which is rotated out")
				}
			case M + 2:
				// rotated out, but CometBFT still lists it in the next two commits: it is absent there - and, being no
				// longer active, not counted
				h.absentRun[1] = 2
				c.Count("absences_of_a_rotated_out_validator_in_the_trailing_commits", 1)
			case M + 5:
				h.extra = func(o *blockOps) {
					rec := &unlockRec{ID: h.nextUID, Val: 2, Token: tokBTC, Requested: big30}
					h.nextUID++
					o.unlocks = append(o.unlocks, rec)
					o.Reqs.Locking.Unlocks = append(o.Reqs.Locking.Unlocks, &goattypes.UnlockRequest{Id: rec.ID, Validator: h.vals[2].Addr, Recipient: common.BigToAddress(big.NewInt(int64(0x1000 + rec.ID))), Token: tokBTC, Amount: big30})
					o.Desc = append(o.Desc, "unlock v2: v1 returns to the set")
				}
			case M + 10:
				if v := h.post.Validator(h.vals[1].Key.Cons); v != nil && v.Status == lockingtypes.Active {
					h.absentRun[1] = 1
					c.Count("rotation_scenarios_with_an_absence_after_the_return", 1)
				}
			case M + 14:
				h.cfg.W = w0
			}
		}
		if directed {
			if j, ok := mon.jailed[1]; ok {
				next := h.ch.Height + 1
				// while it is jailed: a partial unlock that keeps every threshold, then a weight raise of that token - the jailed
				// validator must stay without voting power
				if next == j+4 {
					h.extra = func(o *blockOps) {
						rec := &unlockRec{ID: h.nextUID, Val: 1, Token: tokBTC, Requested: pow10(18)}
						h.nextUID++
						o.unlocks = append(o.unlocks, rec)
						o.Reqs.Locking.Unlocks = append(o.Reqs.Locking.Unlocks, &goattypes.UnlockRequest{Id: rec.ID, Validator: h.vals[1].Addr, Recipient: common.BigToAddress(big.NewInt(int64(0x1000 + rec.ID))), Token: tokBTC, Amount: pow10(18)})
						o.Desc = append(o.Desc, "unlock v1 btc 1e18 while jailed (keeps the threshold)")
					}
				}
				if next == j+7 {
					h.extra = func(o *blockOps) {
						wt := uint64(1)
						if t := h.token(h.post, tokBTC); t != nil {
							wt = t.Weight + 1
						}
						o.Reqs.Locking.UpdateWeights = append(o.Reqs.Locking.UpdateWeights, &goattypes.UpdateTokenWeightRequest{Token: tokBTC, Weight: wt})
						o.Desc = append(o.Desc, fmt.Sprintf("weight btc=%d while v1 is jailed", wt))
						c.Count("weight_raises_while_a_validator_is_jailed_after_an_unlock", 1)
					}
				}
				if next >= j+17 && next <= j+23 {
					h.extra = func(o *blockOps) {
						lr := &goattypes.LockRequest{Validator: h.vals[1].Addr, Token: tokBTC, Amount: pow10(17)}
						o.Reqs.Locking.Locks = append(o.Reqs.Locking.Locks, lr)
						o.locks = append(o.locks, lr)
						o.Desc = append(o.Desc, "lock v1 around the end of its jail")
					}
				}
				if next == j+30 { // a second offence after the release
					h.absentRun[1] = int(h.post.Locking.Params.MaxMissedPerWindow) + 1
				}
			}
		}
		if !h.step() {
			return
		}
		h.extra = nil
		mon.afterBlock()
	}
	c.Sample(map[string]any{"validators": nv, "directed_jail_scenario": directed, "window": h.post.Locking.Params.SignedBlocksWindow, "max_missed": h.post.Locking.Params.MaxMissedPerWindow, "blocks": h.ch.Height,
		"jailed": fmt.Sprint(mon.jailed), "tombstoned": fmt.Sprint(mon.tombstoned), "slashed": h.post.Locking.Slashed.String(), "last_ops": lastN(h.opsLog, 3)})
}

func init() {
	vc.Register(&vc.Check{
		ID: "C14", Title: "Downtime jails and slashes once; double-signing tombstones for good", Level: "exploration",
		Rule: "one case = one history (80/200 blocks) with window 6..10, maximum missed 2..4, jail 60 s (= 20 blocks, so locks land before, exactly at and after the jail end), evidence limits 4 blocks / 15 s with height-age and time-age drawn independently, " +
			"absence streaks of 1..5 blocks across window boundaries, runs of nil precommits (present in the round, not absent: they must not count), a partial unlock and a weight raise while a validator is jailed, and lock/unlock/weight requests aimed at jailed and tombstoned validators; a reference model written from the statement (miss counters per active validator, slash = floor(fraction*holding) or everything if that is 0, evidence age filter, tombstone) " +
			"is stepped with the same vote records and evidence and compared after every commit: who is jailed (never with fewer than the maximum misses in the last window; always when the maximum is reached inside one window from activation), jail time, growth of the slashed totals exactly equal to one slash per offence, tombstoned validators never regain status, power or membership, jailed validators are released only by a lock after the jail time with all thresholds met. " +
			"Non-trivial = every committed block; distinct = (jails, evidence items, absentees in the block) and evidence age classes.",
		Assume: []string{"'active' is read from the chain's own status field (its correctness is C13's subject)", "the proposing validator is never absent"},
		Cases:  func(tier string) int { return map[string]int{"quick": 48 + 8, "thorough": 300 + 60}[tier] },
		Run: func(c *vc.Ctx, i int) {
			if base := map[string]int{"quick": 48, "thorough": 300}[c.Tier]; i >= base {
				combinedHistory(c, i-base, "c14x", c.Pick(70, 160), func(cfg *lockCfg) {
					cfg.TargetPunished, cfg.EvidenceAges = true, true
					cfg.W.Absent, cfg.W.Evidence = 40, 9
					cfg.Cons = func(cp *cmttypes.ConsensusParams) {
						cp.Evidence.MaxAgeNumBlocks = 4
						cp.Evidence.MaxAgeDuration = 15 * time.Second
					}
				}, func(h *lockHist) (func(), func()) {
					mon := newC14Mon(h)
					h.crashFn = func(cr *world.ErrCrash) { c.Inconclusive("FinalizeBlock failed (reported under C13): %v", cr) }
					return mon.afterBlock, nil
				})
				return
			}
			c14History(c, i)
		},
	})
}

var _ = abci.Misbehavior{}
var _ = big.NewInt
