package checks

import (
	"encoding/binary"
	"fmt"
	"github.com/ethereum/go-ethereum/common"
	"github.com/ethereum/go-ethereum/core/types/goattypes"
	"math/rand"
	"sort"
	"strings"
	"time"

	bitcointypes "github.com/goatnetwork/goat/x/bitcoin/types"
	relayertypes "github.com/goatnetwork/goat/x/relayer/types"

	"verif/harness/vc"
	"verif/harness/world"
)

var c01SizesQuick = []int{0, 1, 2, 3, 4, 7, 8, 20, 64, 65, 130}
var c01SizesAll = []int{0, 1, 2, 3, 4, 5, 6, 7, 8, 11, 20, 32, 63, 64, 65, 100, 130, 255}

const (
	mustFail = iota // not a genuine quorum: acceptance is a violation
	control         // genuine quorum with valid payload: expected to be accepted
	mayPass         // genuine quorum in an encoding the statement does not rule out
)

// voteVariant is one generated vote together with the generator's ground truth.
type voteVariant struct {
	Class   string // coarse class, part of the violation signature
	Marks   []int
	NBytes  int
	Signers []int // -1 = proposer, i = voter i, -2.. = strangers
	Doc     string
	Sig     string
	Expect  int
}

func (v voteVariant) String() string {
	return fmt.Sprintf("%s marks=%s bitmap=%dB signers=%s doc=%s sig=%s", v.Class, shortInts(v.Marks), v.NBytes, shortInts(v.Signers), v.Doc, v.Sig)
}

func pickSubset(r *rand.Rand, n, k int) []int {
	p := r.Perm(n)[:k]
	sort.Ints(p)
	return p
}

func bytesFor(marks []int) int {
	m := -1
	for _, x := range marks {
		if x > m {
			m = x
		}
	}
	if m < 0 {
		return 0
	}
	return (m/64 + 1) * 8
}

// c01Variants generates the hostile votes for a group of n voters (threshold T).
func c01Variants(r *rand.Rand, n int) []voteVariant {
	T := world.Threshold(n)
	need := T - 1 // voters needed besides the proposer
	withP := func(m []int) []int { return append([]int{-1}, m...) }
	var vs []voteVariant
	add := func(v voteVariant) {
		if v.NBytes == -1 {
			v.NBytes = bytesFor(v.Marks)
		}
		if v.Doc == "" {
			v.Doc = "correct"
		}
		if v.Sig == "" {
			v.Sig = "aggregate"
		}
		vs = append(vs, v)
	}
	q := pickSubset(r, n, need)
	// genuine shapes in unusual but legal encodings
	if n > 0 {
		all := pickSubset(r, n, n)
		add(voteVariant{Class: "genuine-all-voters", Marks: all, NBytes: -1, Signers: withP(all), Expect: control})
	}
	if need >= 1 && n > need {
		var hi []int
		for i := n - need; i < n; i++ {
			hi = append(hi, i)
		}
		add(voteVariant{Class: "genuine-highest-positions", Marks: hi, NBytes: -1, Signers: withP(hi), Expect: control})
	}
	if nb := bytesFor(q); nb < 32 {
		add(voteVariant{Class: "genuine-padded-bitmap", Marks: q, NBytes: 32, Signers: withP(q), Expect: control})
	}
	for _, nb := range []int{40, 64} {
		add(voteVariant{Class: "genuine-oversized-bitmap", Marks: q, NBytes: nb, Signers: withP(q), Expect: mayPass})
	}
	// below the threshold
	if need >= 1 {
		b := pickSubset(r, n, need-1)
		add(voteVariant{Class: "below-threshold", Marks: b, NBytes: -1, Signers: withP(b), Expect: mustFail})
		// marks make up the number, signatures do not
		for _, beyond := range []int{n, n + 1, 63, 64, 127, 255} {
			if beyond < n {
				continue
			}
			for _, k := range []int{0, need - 1} {
				if k < 0 || k > n || k >= need {
					continue
				}
				real := pickSubset(r, n, k)
				marks := append([]int(nil), real...)
				for j := 0; len(marks) < need; j++ {
					marks = append(marks, beyond+j)
				}
				nb := bytesFor(marks)
				if nb > 32 {
					continue
				}
				add(voteVariant{Class: "marks-beyond-voter-list", Marks: marks, NBytes: nb, Signers: withP(real), Expect: mustFail})
			}
		}
		// marked voters that did not sign
		if need >= 1 {
			sub := q[:len(q)-1]
			add(voteVariant{Class: "marked-voter-did-not-sign", Marks: q, NBytes: -1, Signers: withP(sub), Expect: mustFail})
			add(voteVariant{Class: "only-proposer-signed", Marks: q, NBytes: -1, Signers: []int{-1}, Expect: mustFail})
		}
		add(voteVariant{Class: "proposer-did-not-sign", Marks: q, NBytes: -1, Signers: q, Expect: mustFail})
		if n > need {
			// a signer that is not marked
			extra := pickSubset(r, n, need+1)
			add(voteVariant{Class: "unmarked-extra-signer", Marks: extra[:need], NBytes: -1, Signers: withP(extra), Expect: mustFail})
		}
		// a marked voter did not sign and another marked voter signed twice in its place: the aggregate has the right
		// number of signatures but the signers are not the marked voters. (x, y) pairs are chosen where an indexing slip
		// between mark position and voter would land: word/byte offsets, shifts, neighbours.
		if need >= 2 && n >= 2 {
			seen := map[[2]int]bool{}
			for _, x := range []int{n - 1, 64, 65, 72, 127, 128, n / 2} {
				if x < 1 || x >= n {
					continue
				}
				for _, y := range []int{x - 56, x % 64, x >> 3, x - 64, x - 1, 0, x % 8} {
					if y < 0 || y >= x || seen[[2]int{x, y}] || len(seen) >= 10 {
						continue
					}
					seen[[2]int{x, y}] = true
					marks := []int{y, x}
					for _, o := range pickSubset(r, n, n) {
						if len(marks) >= need {
							break
						}
						if o != x && o != y {
							marks = append(marks, o)
						}
					}
					if len(marks) < need {
						continue
					}
					sort.Ints(marks)
					var signers []int
					for _, m := range marks {
						if m != x {
							signers = append(signers, m)
						}
					}
					signers = append(signers, y) // y once more, x not at all
					add(voteVariant{Class: "marked-voter-replaced-by-second-signature-of-another", Marks: marks, NBytes: -1, Signers: withP(signers), Expect: mustFail})
				}
			}
		}
		// a stranger signs in the place of a voter
		st := append(withP(q[:len(q)-1]), -2)
		add(voteVariant{Class: "stranger-signed-for-voter", Marks: q, NBytes: -1, Signers: st, Expect: mustFail})
	} else {
		// proposer alone is a quorum; a mark beyond the (possibly empty) list must still not be accepted
		for _, beyond := range []int{n, 63} {
			if beyond >= n {
				add(voteVariant{Class: "marks-beyond-voter-list", Marks: []int{beyond}, NBytes: 8, Signers: []int{-1}, Expect: mustFail})
			}
		}
		add(voteVariant{Class: "proposer-did-not-sign", Marks: nil, NBytes: 0, Signers: nil, Sig: "infinity", Expect: mustFail})
	}
	// all-ones bitmaps
	for _, nb := range []int{8, 32} {
		var marks []int
		for i := 0; i < nb*8; i++ {
			marks = append(marks, i)
		}
		exp := mustFail
		if nb*8 == n { // every mark is a voter: genuine only if all of them signed
			exp = mustFail
		}
		add(voteVariant{Class: "all-ones-bitmap", Marks: marks, NBytes: nb, Signers: withP(q), Expect: exp})
	}
	// bitmap lengths that are not whole words
	for _, nb := range []int{1, 3, 7, 9, 33} {
		var m []int
		for _, x := range q {
			if x < nb*8 {
				m = append(m, x)
			}
		}
		exp := mayPass
		if len(m) != len(q) {
			exp = mustFail
		}
		if nb == 33 || nb == 9 {
			// the word-aligned prefix carries the marks
			m = nil
			for _, x := range q {
				if x < nb*8 {
					m = append(m, x)
				}
			}
			exp = mayPass
			if len(m) != len(q) {
				exp = mustFail
			}
		}
		sg := withP(m)
		add(voteVariant{Class: "ragged-bitmap-length", Marks: m, NBytes: nb, Signers: sg, Expect: exp})
	}
	// wrong sign-doc with an otherwise complete quorum
	for _, d := range []string{"chain-id", "chain-id-empty", "chain-id-truncated", "seq+1", "seq+1-field-too", "seq-1-field-too", "epoch+1", "epoch+1-field-too", "method", "proposer", "payload"} {
		add(voteVariant{Class: "wrong-signdoc-" + d, Marks: q, NBytes: -1, Signers: withP(q), Doc: d, Expect: mustFail})
	}
	// malformed signatures
	for _, s := range []string{"short", "long", "random", "infinity", "zero", "other-message", "empty"} {
		add(voteVariant{Class: "malformed-signature-" + s, Marks: q, NBytes: -1, Signers: withP(q), Sig: s, Expect: mustFail})
	}
	add(voteVariant{Class: "nil-vote", Sig: "nil", Expect: mustFail})
	return vs
}

type c01Env struct {
	c, tw     *world.Chain
	m         *bridgeModel
	stranger  []*world.Member
	lastField string // which payload field the last "payload" variant changed
}

// c01Build renders a variant into a message with a vote, against the given context.
func c01Build(env *c01Env, g *world.Group, kind string, v voteVariant, salt int) (voteMsg, bool) {
	msg, ok := env.m.payload(kind, g.Proposer.AddrStr, salt)
	if !ok {
		return nil, false
	}
	if v.Sig == "nil" {
		return msg, true
	}
	vc_ := world.VoteCtx{ChainID: env.c.W.Cfg.ChainID, Proposer: g.Proposer.AddrStr, Seq: g.Seq, Epoch: g.Epoch}
	fieldSeq, fieldEpoch := g.Seq, g.Epoch
	signMsg := relayertypes.IVoteMsg(msg)
	switch v.Doc {
	case "chain-id":
		vc_.ChainID = "goat-other-9"
	case "chain-id-empty":
		vc_.ChainID = ""
	case "chain-id-truncated":
		vc_.ChainID = vc_.ChainID[:len(vc_.ChainID)-1]
	case "seq+1":
		vc_.Seq++
	case "seq+1-field-too":
		vc_.Seq++
		fieldSeq++
	case "seq-1-field-too":
		vc_.Seq--
		fieldSeq--
	case "epoch+1":
		vc_.Epoch++
	case "epoch+1-field-too":
		vc_.Epoch++
		fieldEpoch++
	case "method":
		other, ok2 := env.m.payload(map[string]string{"hashes": "consolidation", "pubkey": "hashes", "process": "replace", "replace": "process", "consolidation": "hashes"}[kind], g.Proposer.AddrStr, salt)
		if !ok2 {
			other, _ = env.m.payload("hashes", g.Proposer.AddrStr, salt)
		}
		signMsg = methodSwap{msg, other.MethodName()}
	case "proposer":
		if len(g.Voters) > 0 && g.Voters[0] != nil {
			vc_.Proposer = g.Voters[0].AddrStr
		} else {
			vc_.Proposer = env.stranger[0].AddrStr
		}
	}
	var signers []*world.Member
	for _, s := range v.Signers {
		switch {
		case s == -1:
			signers = append(signers, g.Proposer)
		case s <= -2:
			signers = append(signers, env.stranger[-s-2])
		default:
			if g.Voters[s] == nil {
				return nil, false
			}
			signers = append(signers, g.Voters[s])
		}
	}
	vote, err := world.MakeVote(signMsg, vc_, signers, world.Bitmap(v.Marks, v.NBytes))
	if err != nil {
		return nil, false
	}
	vote.Sequence, vote.Epoch = fieldSeq, fieldEpoch
	switch v.Sig {
	case "short":
		vote.Signature = vote.Signature[:len(vote.Signature)-1]
	case "long":
		vote.Signature = append(vote.Signature, 0)
	case "random":
		b := world.Derive(uint64(salt), "randsig", 0)
		vote.Signature = append(append([]byte{}, b...), b[:16]...)
		vote.Signature[0] |= 0x80
	case "infinity":
		vote.Signature = make([]byte, 48)
		vote.Signature[0] = 0xc0
	case "zero":
		vote.Signature = make([]byte, 48)
	case "empty":
		vote.Signature = nil
	case "other-message":
		sig, _ := world.AggSign([]byte("some other message"), signers)
		vote.Signature = sig
	}
	setVote(msg, vote)
	if v.Doc == "payload" {
		what := mutatePayloadField(msg, salt, env.m)
		env.lastField = what
	}
	return msg, true
}

type methodSwap struct {
	relayertypes.IVoteMsg
	name string
}

func (m methodSwap) MethodName() string { return m.name }

func c01History(c *vc.Ctx, n, hist int) {
	r := world.NewRand(c.Seed, fmt.Sprintf("c01/%d", n), hist)
	period := 10 * time.Minute
	if hist%2 == 1 {
		period = 10 * time.Second // elections every few blocks: epochs and proposers change
	}
	w, err := world.New(world.Config{Seed: c.Seed, Label: fmt.Sprintf("c01-%d-%d", n, hist), NRelayers: n + 1, Schnorr: hist%3 == 2,
		Relayer: func(g *relayertypes.GenesisState) { g.Params.ElectingPeriod = period }})
	if err != nil {
		c.Inconclusive("world: %v", err)
		return
	}
	ch, err := world.NewChain(w)
	if err != nil {
		c.Inconclusive("chain: %v", err)
		w.Cleanup()
		return
	}
	defer ch.Close()
	tw, err := world.NewChain(w)
	if err != nil {
		c.Inconclusive("twin: %v", err)
		return
	}
	defer func() {
		for _, nd := range tw.Nodes {
			nd.Close()
		}
	}()
	env := &c01Env{c: ch, tw: tw, m: newBridgeModel(c.Seed, w.BtcKey)}
	for i := 0; i < 3; i++ {
		env.stranger = append(env.stranger, world.NewMember(c.Seed, "stranger", i))
	}
	// block 1: withdrawals to work on. In histories without elections (long period) the execution layer also asks for
	// the removal of one or two voters: until the next election they stay current voters (listed, keys in use, epoch
	// unchanged), so the quorum is still counted over the whole group
	setup := &world.Requests{Bridge: bridgeReqs(env.m.withdrawRequests(24))}
	if hist%2 == 0 && n >= 1 {
		nrem := 1
		if n >= 4 {
			nrem = 2
		}
		for k := 0; k < nrem; k++ {
			setup.Relayer.Removes = append(setup.Relayer.Removes, &goattypes.RemoveVoterRequest{Voter: common.BytesToAddress(w.Members[len(w.Members)-1-k].Addr)})
			c.Count("removals_pending_during_the_votes", 1)
		}
	}
	b, err := ch.Step(world.StepOpts{Reqs: setup})
	if err != nil {
		c.Inconclusive("setup block: %v", err)
		return
	}
	if _, err := tw.Apply(b, b.Req.Txs); err != nil {
		c.Inconclusive("twin setup block: %v", err)
		return
	}
	if hist%2 == 0 {
		// two processing batches for twin withdrawals (same address, same amount) before the rounds start: a vote for a fee
		// bump of one batch can then be offered for the other
		for k := 0; k < 2; k++ {
			g, err := ch.Group(w.Members)
			if err != nil {
				break
			}
			msg, ok := env.m.payload("process", g.Proposer.AddrStr, k)
			if !ok {
				break
			}
			v, err := ch.QuorumVote(g, msg)
			if err != nil {
				break
			}
			setVote(msg, v)
			num, seq, _ := ch.Account(g.Proposer.Addr)
			raw, err := w.SignTx(world.TxSpec{Msgs: []sdkMsg{msg}, Priv: g.Proposer.Tx, AccNum: num, Seq: seq})
			if err != nil {
				break
			}
			ch.Inject(raw)
			pb, err := ch.Step(world.StepOpts{})
			if err != nil {
				c.Inconclusive("prelude block: %v", err)
				return
			}
			if _, err := tw.Apply(pb, pb.Req.Txs); err != nil {
				c.Inconclusive("twin prelude block: %v", err)
				return
			}
			if len(pb.Resp.TxResults) > 1 && pb.Resp.TxResults[1].Code == 0 {
				env.m.accepted(msg)
				c.Count("twin_batches_prepared", 1)
			}
		}
	}
	rounds := c.Pick(5, 12)
	acceptedControls := map[string]int{}
	for round := 0; round < rounds; round++ {
		g, err := ch.Group(w.Members)
		if err != nil {
			c.Inconclusive("group: %v", err)
			return
		}
		vars := c01Variants(r, n)
		r.Shuffle(len(vars), func(i, j int) { vars[i], vars[j] = vars[j], vars[i] })
		// hostile votes first (none may change anything), one genuine control last
		type item struct {
			kind string
			v    voteVariant
			msg  voteMsg
			pre  voteMsg // a genuinely voted message in front of msg, in the same transaction (msg is signed for the sequence after it)
		}
		var items []item
		var later []voteVariant
		for _, v := range vars {
			if v.Expect == mayPass {
				later = append(later, v)
				continue
			}
			if v.Expect == control || len(items) >= 8 {
				continue
			}
			kind := voteKinds[r.Intn(len(voteKinds))]
			msg, ok := c01Build(env, g, kind, v, r.Intn(1000))
			if !ok {
				kind = "hashes"
				msg, ok = c01Build(env, g, kind, v, r.Intn(1000))
				if !ok {
					continue
				}
			}
			items = append(items, item{kind, v, msg, nil})
		}
		// directed: a genuine quorum for a processing / fee-bump payload, offered with the withdrawal id or the batch id of
		// its twin (same address, same amounts: the moved message is valid in everything but the vote)
		for _, v := range vars {
			if v.Doc != "payload" || v.Expect != mustFail {
				continue
			}
			// and a vote for a batch of block hashes offered with one field of the batch changed: a different field in every
			// round (first, last, middle hash, one hash fewer, one more), on a batch of three hashes
			if len(items) < 11 {
				want := round % 5
				for salt := 0; salt < 240; salt++ {
					if salt%5 == want && salt%3 == 2 && salt%8 < 6 {
						if msg, ok := c01Build(env, g, "hashes", v, salt); ok {
							items = append(items, item{"hashes", v, msg, nil})
							c.Count("hash_batch_votes_with_one_field_changed", 1)
						}
						break
					}
				}
			}
			for _, kind := range []string{"replace", "process"} {
				if len(items) >= 11 {
					break
				}
				env.lastField = ""
				msg, ok := c01Build(env, g, kind, v, 1+3*r.Intn(300))
				if ok && (strings.HasPrefix(env.lastField, "batch id") || strings.HasPrefix(env.lastField, "withdrawal id")) {
					items = append(items, item{kind, v, msg, nil})
					c.Count("votes_moved_to_a_twin_id_or_batch_"+kind, 1)
				}
			}
			break
		}
		q := pickSubset(r, n, world.Threshold(n)-1)
		genuine := voteVariant{Class: "genuine-exact-threshold", Marks: q, NBytes: bytesFor(q), Signers: append([]int{-1}, q...), Doc: "correct", Sig: "aggregate", Expect: control}
		gNext := *g
		gNext.Seq++
		// directed: one transaction with two voted messages, the first with a genuine quorum, the second (signed for the
		// sequence that follows) without one - every message needs its own quorum, and the transaction fails as a whole
		{
			var cands []voteVariant
			for _, v := range vars {
				if v.Expect == mustFail && v.Doc == "correct" && v.Sig != "nil" {
					cands = append(cands, v)
				}
			}
			sort.Slice(cands, func(i, j int) bool { return cands[i].String() < cands[j].String() })
			if len(cands) > 0 {
				fv := cands[(round*7+hist)%len(cands)]
				fv.Class = "second-message-of-a-transaction:" + fv.Class
				k2 := []string{"pubkey", "process", "consolidation", "replace", "hashes"}[(round+hist)%5]
				pre, ok1 := c01Build(env, g, "hashes", genuine, r.Intn(1000))
				forged, ok2 := c01Build(env, &gNext, k2, fv, r.Intn(1000))
				if !ok2 {
					k2 = "pubkey"
					forged, ok2 = c01Build(env, &gNext, k2, fv, r.Intn(1000))
				}
				if ok1 && ok2 {
					items = append(items, item{k2, fv, forged, pre})
					c.Count("transactions_with_a_genuine_and_a_forged_vote", 1)
				}
			}
		}
		// directed: a genuine quorum for one processing proposal offered for another one that differs only in where the id
		// list ends and the transaction begins (ids [a.., x] + tx T[8:] signed; ids [a..] + tx T submitted, x = first eight
		// bytes of T read as an id): the signed payload must separate its variable-length parts
		if len(items) < 12 {
			if pm, ok := env.m.payload("process", g.Proposer.AddrStr, 3+7*round); ok {
				if sub, isProc := pm.(*bitcointypes.MsgProcessWithdrawal); isProc && len(sub.NoWitnessTx) > 40 {
					signed := &bitcointypes.MsgProcessWithdrawal{Proposer: sub.Proposer, TxFee: sub.TxFee,
						Id:          append(append([]uint64{}, sub.Id...), binary.LittleEndian.Uint64(sub.NoWitnessTx[:8])),
						NoWitnessTx: append([]byte{}, sub.NoWitnessTx[8:]...)}
					var signers []*world.Member
					signers = append(signers, g.Proposer)
					for _, qi := range q {
						if g.Voters[qi] != nil {
							signers = append(signers, g.Voters[qi])
						}
					}
					vctx := world.VoteCtx{ChainID: env.c.W.Cfg.ChainID, Proposer: g.Proposer.AddrStr, Seq: g.Seq, Epoch: g.Epoch}
					if vote, err := world.MakeVote(signed, vctx, signers, world.Bitmap(q, bytesFor(q))); err == nil && len(signers) == len(q)+1 {
						vote.Sequence, vote.Epoch = g.Seq, g.Epoch
						setVote(sub, vote)
						fv := voteVariant{Class: "vote-for-a-payload-split-elsewhere", Marks: q, NBytes: bytesFor(q), Signers: append([]int{-1}, q...), Doc: "payload", Sig: "aggregate", Expect: mustFail}
						items = append(items, item{"process", fv, sub, nil})
						c.Count("votes_for_a_payload_split_elsewhere", 1)
					}
				}
			}
		}
		// the control: rotate kinds and genuine shapes
		var ctrls []voteVariant
		ctrls = append(ctrls, genuine)
		for _, v := range vars {
			if v.Expect == control {
				ctrls = append(ctrls, v)
			}
		}
		cv := ctrls[round%len(ctrls)]
		ckind := voteKinds[(round+hist)%len(voteKinds)]
		cmsg, ok := c01Build(env, g, ckind, cv, r.Intn(1000))
		if !ok {
			ckind = "hashes"
			cmsg, _ = c01Build(env, g, ckind, cv, r.Intn(1000))
		}
		g2 := *g
		g2.Seq++
		doubleCtl := false
		if round%3 == 2 {
			// the control is a transaction with two genuinely voted messages (sequences s and s+1): shows that the directed
			// two-message transactions above are not refused for having two messages
			k2 := "pubkey"
			if ckind == "pubkey" {
				k2 = "hashes"
			}
			if second, ok := c01Build(env, &g2, k2, genuine, r.Intn(1000)); ok && cmsg != nil {
				items = append(items, item{k2, cv, second, cmsg})
				doubleCtl = true
				g2.Seq++
				c.Count("controls_with_two_voted_messages", 1)
			}
		}
		if !doubleCtl {
			items = append(items, item{ckind, cv, cmsg, nil})
		}
		// encodings the statement does not rule out: after the control, signed for the sequence that follows it
		for i, v := range later {
			if i >= 2 {
				break
			}
			kind := []string{"consolidation", "pubkey"}[r.Intn(2)]
			if msg, ok := c01Build(env, &g2, kind, v, r.Intn(1000)); ok {
				items = append(items, item{kind, v, msg, nil})
			}
		}

		num, seq, ok := ch.Account(g.Proposer.Addr)
		if !ok {
			c.Inconclusive("no proposer account")
			return
		}
		for i, it := range items {
			msgs := []sdkMsg{it.msg}
			if it.pre != nil {
				msgs = []sdkMsg{it.pre, it.msg}
			}
			raw, err := w.SignTx(world.TxSpec{Msgs: msgs, Priv: g.Proposer.Tx, AccNum: num, Seq: seq + uint64(i)})
			if err != nil {
				c.Inconclusive("sign: %v", err)
				return
			}
			ch.Inject(raw)
		}
		blk, err := ch.Step(world.StepOpts{})
		if err != nil {
			c.Violation("block processing failed with hostile votes in the block", err.Error(), nil)
			return
		}
		if len(blk.Resp.TxResults) != len(items)+1 {
			c.Inconclusive("expected %d results, got %d", len(items)+1, len(blk.Resp.TxResults))
			return
		}
		var hostile []string
		hostileAccepted := false
		for i, it := range items {
			if hostileAccepted {
				break // the sequence has moved: later votes were generated against a context that no longer exists
			}
			res := blk.Resp.TxResults[i+1]
			c.Eval(1)
			c.Count("votes_"+it.kind, 1)
			desc := fmt.Sprintf("n=%d kind=%s class=%s |marks|=%d |signers|=%d bitmap=%dB", n, it.kind, it.v.Class, len(it.v.Marks), len(it.v.Signers), it.v.NBytes)
			c.Nontrivial("%s accepted=%v", desc, res.Code == 0)
			switch it.v.Expect {
			case mustFail:
				hostile = append(hostile, it.v.String())
				c.Count("hostile_votes_judged", 1)
				if res.Code == 0 {
					c.Violation("vote without a genuine quorum accepted: "+it.v.Class,
						fmt.Sprintf("group of %d voters + proposer (threshold %d), %s message, %s; result code 0", n, world.Threshold(n), it.kind, it.v),
						map[string]any{"n": n, "history": hist, "round": round, "kind": it.kind, "variant": it.v})
					env.m.accepted(it.msg)
					hostileAccepted = true
				} else {
					c.Count("hostile_votes_rejected", 1)
				}
			case control:
				if res.Code == 0 {
					acceptedControls[it.kind]++
					c.Count("genuine_quorums_accepted", 1)
					if it.pre != nil {
						env.m.accepted(it.pre)
						c.Count("controls_with_two_voted_messages_accepted", 1)
					}
					env.m.accepted(it.msg)
				} else {
					c.Count("genuine_quorums_rejected", 1)
					c.Sample(map[string]any{"control_rejected": desc, "log": res.Log})
					if cl := failClass(res.Log); strings.Contains(cl, "verify aggregation") || strings.Contains(cl, "invalid voters") {
						c.Inconclusive("a genuine quorum (%s, group of %d) was refused by the vote check itself: %s", it.v.Class, n, cl)
					}
				}
			case mayPass:
				c.Count("permitted_encodings_judged", 1)
				if res.Code == 0 {
					env.m.accepted(it.msg)
				}
			}
		}
		if round == 0 && hist == 0 {
			c.Sample(map[string]any{"group_voters": n, "threshold": world.Threshold(n), "epoch": g.Epoch, "sequence": g.Seq, "votes_in_block": hostile[:min(4, len(hostile))]})
		}
		// twin: same block without the hostile votes; the accepted ones re-signed for the twin's account sequence
		twTxs := [][]byte{blk.Req.Txs[0]}
		tnum, tseq, _ := tw.Account(g.Proposer.Addr)
		k := 0
		for i, it := range items {
			if blk.Resp.TxResults[i+1].Code != 0 || it.v.Expect == mustFail {
				continue
			}
			msgs := []sdkMsg{it.msg}
			if it.pre != nil {
				msgs = []sdkMsg{it.pre, it.msg}
			}
			raw, err := w.SignTx(world.TxSpec{Msgs: msgs, Priv: g.Proposer.Tx, AccNum: tnum, Seq: tseq + uint64(k)})
			if err != nil {
				c.Inconclusive("sign twin: %v", err)
				return
			}
			k++
			twTxs = append(twTxs, raw)
		}
		if _, err := tw.Apply(blk, twTxs); err != nil {
			c.Inconclusive("twin apply: %v", err)
			return
		}
		if hostileAccepted {
			return // the chains have legitimately diverged; the acceptance itself is the violation
		}
		if d := world.DiffStores(ch.Node(), tw.Node(), stateStores...); len(d) > 0 {
			c.Violation("rejected voted proposals changed state", fmt.Sprintf("stores %v differ from the twin that executed the block without the %d rejected votes: %v", d, len(hostile), hostile),
				map[string]any{"n": n, "history": hist, "round": round})
			return
		}
		c.Count("twin_store_comparisons", 1)
	}
	if len(acceptedControls) == 0 {
		c.Count("histories_without_an_accepted_control", 1) // judged over the whole run (checkconf.json: require_observed)
	}
}

func init() {
	vc.Register(&vc.Check{
		ID: "C01", Title: "Voted relayer proposals need a genuine two-thirds quorum", Level: "exploration",
		Rule: "one case = one history on a relayer group of n voters + proposer (n from {0..8,11,20,32,63,64,65,100,255}); every block carries up to 13 hostile votes " +
			"(below threshold, marks beyond the voter list, unsigned marks, missing proposer, unmarked/stranger signers, ragged and all-ones bitmaps, sign-doc wrong in one of chain id/sequence/epoch/method/proposer/payload, malformed signatures, nil vote) " +
			"attached to payloads that are otherwise valid for each of the five voted message kinds, one transaction with two voted messages (a genuine quorum first, a forged vote for the following sequence second: it must fail as a whole), followed by one genuine-quorum control (every third one a transaction with two genuinely voted messages); oracle from the generator's ground truth (who signed, which marks) plus store-hash comparison with a twin node that executed the block without the hostile votes. " +
			"Non-trivial = every judged vote; distinct = (group size, kind, class, |marks|, |signers|, bitmap length, verdict).",
		Assume: []string{"blst signing in the harness is correct", "the harness resolves the voter order from Query/Relayer"},
		Cases: func(tier string) int {
			if tier == "thorough" {
				return len(c01SizesAll) * 5
			}
			return len(c01SizesQuick)
		},
		Run: func(c *vc.Ctx, i int) {
			sizes := c01SizesQuick
			if c.Thorough() {
				sizes = c01SizesAll
			}
			c01History(c, sizes[i%len(sizes)], i/len(sizes))
		},
	})
}

func shortInts(a []int) string {
	if len(a) <= 12 {
		return fmt.Sprint(a)
	}
	return fmt.Sprintf("%v..(%d in all)..%v", a[:6], len(a), a[len(a)-3:])
}
