package checks

import (
	"fmt"
	"math/big"
	"sort"
	"time"

	"github.com/ethereum/go-ethereum/core/types/goattypes"
	lockingtypes "github.com/goatnetwork/goat/x/locking/types"

	"verif/harness/vc"
	"verif/harness/world"
)

// c15Mon: every unlock is released no earlier than the unlock / exit delay, once, in maturity order.
type c15Mon struct {
	h        *lockHist
	order    uint64
	reqOrder map[uint64]uint64
	minMat   map[uint64]time.Time // earliest admissible delivery time by the statement
	exiting  map[uint64]bool
	lastDel  *unlockRec
	lastKey  [2]int64
}

func newC15Mon(h *lockHist) *c15Mon {
	return &c15Mon{h: h, reqOrder: map[uint64]uint64{}, minMat: map[uint64]time.Time{}, exiting: map[uint64]bool{}}
}

func (m *c15Mon) afterBlock() {
	h := m.h
	c, pre, post, blk, ops := h.c, h.pre, h.post, h.blk, h.ops
	c.Eval(1)
	viol := func(sig, detail string) {
		c.Violation(sig, fmt.Sprintf("height %d: %s", blk.Height, detail), h.replay())
	}
	prm := post.Locking.Params
	if blk.VsetErr != nil {
		// CometBFT refused the validator update (C13's subject, e.g. the last validator leaving): the
		// harness's validator-set model is no longer meaningful, end the history without a verdict
		c.Count("histories_ended_by_rejected_validator_update", 1)
		h.failed = true
		return
	}
	// deliveries of this block
	if blk.BlockOK && blk.Payload != nil {
		n := int(blk.Payload.ExtraData[0])
		cnt := 0
		for i := 0; i < n && i < len(blk.Payload.Transactions); i++ {
			st, err := world.DecodeSysTx(blk.Payload.Transactions[i])
			if err != nil {
				continue
			}
			u, ok := st.Tx.(*goattypes.CompleteUnlockTx)
			if !ok {
				continue
			}
			cnt++
			rec := h.unlocks[u.Id]
			if rec == nil {
				viol("released an unlock that was never requested", fmt.Sprintf("unlock id %d", u.Id))
				continue
			}
			if rec.Delivered > 1 {
				viol("unlock released more than once", fmt.Sprintf("unlock id %d delivered %d times", u.Id, rec.Delivered))
			}
			if min := m.minMat[u.Id]; blk.Time.Before(min) {
				kind := "unlock"
				if m.exiting[u.Id] {
					kind = "exit"
				}
				viol("unlock released before the "+kind+" delay elapsed", fmt.Sprintf("unlock %d requested at %s (exiting=%v), released at %s, earliest allowed %s",
					u.Id, rec.ReqTime.Format(time.RFC3339Nano), m.exiting[u.Id], blk.Time.Format(time.RFC3339Nano), min.Format(time.RFC3339Nano)))
			}
			if rec.Queued != nil && rec.Queued.Cmp(u.Amount) != 0 {
				viol("released amount differs from the queued amount", fmt.Sprintf("unlock %d queued %s released %s", u.Id, rec.Queued, u.Amount))
			}
			// maturity order: (maturity, request order) never decreases along the delivery sequence
			key := [2]int64{rec.Maturity.UnixNano(), int64(m.reqOrder[u.Id])}
			if m.lastDel != nil && (key[0] < m.lastKey[0] || (key[0] == m.lastKey[0] && key[1] < m.lastKey[1])) {
				viol("unlocks released out of maturity order", fmt.Sprintf("unlock %d (matures %s) released after unlock %d (matures %s)", u.Id, rec.Maturity.Format(time.RFC3339Nano), m.lastDel.ID, m.lastDel.Maturity.Format(time.RFC3339Nano)))
			}
			m.lastDel, m.lastKey = rec, key
			c.Count("releases_judged", 1)
			if !blk.Time.After(m.minMat[u.Id].Add(h.ch.Step0)) {
				c.Count("releases_within_one_block_of_maturity", 1)
			}
		}
		if cnt > 16 {
			viol("more than 16 unlocks released in one block", fmt.Sprintf("%d", cnt))
		}
		if cnt == 16 {
			c.Count("blocks_at_release_cap", 1)
		}
	}
	if !blk.BlockOK || len(ops.unlocks) == 0 {
		return
	}
	// new requests: ground-truth classification exiting / not exiting
	type run struct {
		status  lockingtypes.ValidatorStatus
		hold    map[string]*big.Int
		unknown bool
	}
	runs := map[int]*run{}
	queued := map[uint64]struct {
		amt *big.Int
		at  time.Time
	}{}
	for _, q := range post.Locking.UnlockQueue {
		for _, u := range q.Unlocks {
			queued[u.Id] = struct {
				amt *big.Int
				at  time.Time
			}{bi(u.Amount), q.Timestamp}
		}
	}
	for _, u := range post.Locking.EthTxQueue.Unlocks {
		if _, ok := queued[u.Id]; !ok {
			queued[u.Id] = struct {
				amt *big.Int
				at  time.Time
			}{bi(u.Amount), blk.Time}
		}
	}
	for _, u := range ops.unlocks {
		rn := runs[u.Val]
		if rn == nil {
			rn = &run{status: lockingtypes.Pending, hold: map[string]*big.Int{}}
			if pv := pre.Validator(h.vals[u.Val].Key.Cons); pv != nil {
				rn.status = pv.Status
			}
			if qv := post.Validator(h.vals[u.Val].Key.Cons); qv != nil && qv.Status == lockingtypes.Tombstoned {
				rn.status = lockingtypes.Tombstoned // tombstoning happens in BeginBlock, before the requests run
			}
			runs[u.Val] = rn
		}
		d := denomOf(u.Token)
		if rn.hold[d] == nil {
			rn.hold[d] = h.holding(pre, u.Val, u.Token)
			for _, l := range ops.locks {
				if l.Validator == h.vals[u.Val].Addr && l.Token == u.Token {
					rn.hold[d].Add(rn.hold[d], l.Amount)
				}
			}
			// slashed in this block's BeginBlock (jailed or tombstoned now): the holding the requests saw
			// cannot be reconstructed from the snapshots, so the clauses that need it are skipped
			if pv, qv := pre.Validator(h.vals[u.Val].Key.Cons), post.Validator(h.vals[u.Val].Key.Cons); pv != nil && qv != nil &&
				(!qv.JailedUntil.Equal(pv.JailedUntil) || (qv.Status == lockingtypes.Tombstoned && pv.Status != lockingtypes.Tombstoned)) {
				rn.hold[d] = nil
				rn.unknown = true
			}
		}
		if rn.unknown {
			rn.hold[d] = nil
		}
		q, ok := queued[u.ID]
		if !ok {
			viol("accepted unlock request was not queued", fmt.Sprintf("unlock id %d", u.ID))
			continue
		}
		u.Queued, u.Maturity = q.amt, q.at
		m.order++
		m.reqOrder[u.ID] = m.order
		tok := h.token(post, u.Token)
		th := new(big.Int)
		if tok != nil {
			th = tok.Threshold.BigInt()
		}
		exiting := rn.status == lockingtypes.Inactive || rn.status == lockingtypes.Tombstoned
		below := false
		if rn.hold[d] != nil {
			clip := new(big.Int).Set(u.Requested)
			if clip.Cmp(rn.hold[d]) > 0 {
				clip.Set(rn.hold[d])
			}
			remaining := new(big.Int).Sub(rn.hold[d], clip)
			below = remaining.Cmp(th) < 0
			if exiting && q.amt.Cmp(clip) != 0 {
				viol("funds of an exited validator are not withdrawable", fmt.Sprintf("unlock %d on a %s validator: requested %s, holding %s, queued %s", u.ID, rn.status, u.Requested, rn.hold[d], q.amt))
			}
			rn.hold[d] = remaining
		} else {
			// holding unknown (slashed in this block): only the status rule can be applied, which gives the
			// weaker (still sound) lower bound for the release time
			c.Count("unlocks_on_validators_slashed_in_the_same_block", 1)
		}
		if below && !exiting {
			c.Count("unlocks_dropping_below_threshold", 1)
			rn.status = lockingtypes.Inactive
			// leaves the candidate set immediately with zero power
			qv := post.Validator(h.vals[u.Val].Key.Cons)
			if qv != nil && (qv.Status != lockingtypes.Inactive && qv.Status != lockingtypes.Tombstoned || qv.Power != 0) {
				viol("validator below a threshold did not leave the candidate set", fmt.Sprintf("v%d status %s power %d after unlock %d left it below the threshold of %s", u.Val, qv.Status, qv.Power, u.ID, d))
			}
			for _, nv := range h.ch.NextVals.Validators {
				if string(nv.Address) == string(h.vals[u.Val].Key.Cons) {
					viol("validator below a threshold stayed in the validator set", fmt.Sprintf("v%d still has power %d in the next set", u.Val, nv.VotingPower))
				}
			}
		}
		ex := exiting || below
		m.exiting[u.ID] = ex
		period := prm.UnlockDuration
		if ex {
			period = prm.ExitingDuration
			c.Count("exit_unlocks", 1)
		} else {
			c.Count("ordinary_unlocks", 1)
		}
		m.minMat[u.ID] = blk.Time.Add(period)
		if u.Maturity.Before(m.minMat[u.ID]) {
			viol("unlock queued to mature before the required delay", fmt.Sprintf("unlock %d exiting=%v requested at %s, queued for %s, required %s", u.ID, ex, blk.Time.Format(time.RFC3339Nano), u.Maturity.Format(time.RFC3339Nano), m.minMat[u.ID].Format(time.RFC3339Nano)))
		}
		c.Nontrivial("exiting=%v status=%s below=%v clipped=%v batch=%d", ex, rn.status, below, q.amt.Cmp(u.Requested) < 0, min(len(ops.unlocks), 20))
	}
}

// drain runs empty blocks until everything must have been released (bounded progress).
func (m *c15Mon) drain() {
	h := m.h
	pending := 0
	for _, u := range h.unlocks {
		if u.Applied && u.Delivered == 0 {
			pending++
		}
	}
	if pending == 0 {
		return
	}
	h.cfg.W = lockWeights{}
	// one step over the longest delay, then enough blocks for the capped delivery
	jump := h.post.Locking.Params.ExitingDuration + h.ch.Step0
	blocks := pending/16 + 4
	for b := 0; b < blocks && !h.failed; b++ {
		o := &blockOps{Absent: map[string]bool{}, Dt: h.ch.Step0}
		if b == 0 {
			o.Dt = jump
		}
		h.ops, h.pre = o, h.post
		blk, err := h.ch.Step(world.StepOpts{Dt: o.Dt})
		if err != nil {
			h.c.Inconclusive("drain: %v", err)
			return
		}
		h.blk = blk
		post, err := h.ch.Node().Snapshot()
		if err != nil {
			h.c.Inconclusive("drain snapshot: %v", err)
			return
		}
		h.post = post
		if blk.BlockOK && blk.Payload != nil {
			n := int(blk.Payload.ExtraData[0])
			for i := 0; i < n && i < len(blk.Payload.Transactions); i++ {
				if st, err := world.DecodeSysTx(blk.Payload.Transactions[i]); err == nil {
					h.onDelivered(st)
				}
			}
		}
		m.afterBlock()
	}
	var missing []uint64
	for id, u := range h.unlocks {
		if u.Applied && u.Delivered == 0 {
			missing = append(missing, id)
		}
		if u.Delivered > 1 {
			h.c.Violation("unlock released more than once", fmt.Sprintf("unlock id %d delivered %d times", id, u.Delivered), h.replay())
		}
	}
	sort.Slice(missing, func(i, j int) bool { return missing[i] < missing[j] })
	if len(missing) > 0 {
		h.c.Violation("matured unlock never released", fmt.Sprintf("%d unlocks not released after all delays elapsed and %d drain blocks: ids %v", len(missing), blocks, missing[:min(len(missing), 10)]), h.replay())
	}
	h.c.Count("drained_histories", 1)
}

func c15History(c *vc.Ctx, idx int) {
	r := world.NewRand(c.Seed, "c15cfg", idx)
	nv := 2 + r.Intn(4)
	step := 3 * time.Second
	ul := time.Duration(2+r.Intn(4)) * step
	ex := ul + time.Duration(r.Intn(6))*step
	if idx%5 == 4 {
		ex = ul // equal periods
	}
	cfg := lockCfg{Label: "c15", NVals: nv, MaxVals: 4, Blocks: c.Pick(70, 180), Protect0: true, JumpTime: true, TimeEdges: true,
		W: lockWeights{Create: 8, Lock: 35, Unlock: 65, Claim: 3, Weight: 5, Threshold: 8, Absent: 10, Evidence: 5, BigUnlock: 20},
		Params: func(p *lockingtypes.Params) {
			p.UnlockDuration = ul
			p.ExitingDuration = ex
		}}
	h, err := newLockHist(c, cfg, idx)
	if err != nil {
		c.Inconclusive("setup: %v", err)
		return
	}
	defer h.close()
	mon := newC15Mon(h)
	h.crashFn = func(cr *world.ErrCrash) { c.Inconclusive("FinalizeBlock failed (reported under C13): %v", cr) }
	for b := 0; b < cfg.Blocks && !h.failed; b++ {
		if !h.step() {
			return
		}
		mon.afterBlock()
	}
	if !h.failed {
		mon.drain()
	}
	c.Sample(map[string]any{"unlock_period": ul.String(), "exit_period": ex.String(), "blocks": h.ch.Height, "unlock_requests": len(h.unlocks), "last_ops": lastN(h.opsLog, 3)})
}

func init() {
	vc.Register(&vc.Check{
		ID: "C15", Title: "Unlocked funds are released only after the unlock or exit delay, once", Level: "exploration",
		Rule: "one case = one history (70/180 blocks + drain) with unlock period 2..5 blocks and exit period >= it (equal in every fifth history), block times with (almost) equal stamps and jumps over several maturities, " +
			"unlock bursts above the per-block cap, unlocks to / just below thresholds, unlocks on inactive, jailed and tombstoned validators; ground truth = request block time and the exiting rule evaluated on the pre-block snapshot; " +
			"oracle on the complete-unlock system txs of finalised payloads: not before request time + required delay, exactly once, in (maturity, request) order, <= 16 per block, all released after a drain phase; " +
			"a validator pushed below a threshold is inactive with power 0 and out of the next set in the same block, and exited validators' unlocks queue min(requested, holding). Non-trivial = every accepted unlock request; distinct = (exiting, status, below-threshold, clipped, batch size).",
		Assume: []string{"liveness is judged as bounded progress: one time step beyond the exit period plus ceil(backlog/16)+4 blocks"},
		Cases:  func(tier string) int { return map[string]int{"quick": 48 + 8, "thorough": 300 + 60}[tier] },
		Run: func(c *vc.Ctx, i int) {
			if base := map[string]int{"quick": 48, "thorough": 300}[c.Tier]; i >= base {
				combinedHistory(c, i-base, "c15x", c.Pick(60, 150), func(cfg *lockCfg) { cfg.W.Unlock, cfg.W.BigUnlock = 60, 20 }, func(h *lockHist) (func(), func()) {
					mon := newC15Mon(h)
					h.crashFn = func(cr *world.ErrCrash) { c.Inconclusive("FinalizeBlock failed (reported under C13): %v", cr) }
					return mon.afterBlock, mon.drain
				})
				return
			}
			c15History(c, i)
		},
	})
}
