package checks

import (
	"bytes"
	"encoding/json"
	"fmt"
	"sort"
	"time"

	abci "github.com/cometbft/cometbft/abci/types"
	"github.com/ethereum/go-ethereum/core/types/goattypes"
	bitcointypes "github.com/goatnetwork/goat/x/bitcoin/types"
	lockingtypes "github.com/goatnetwork/goat/x/locking/types"

	"verif/harness/vc"
	"verif/harness/world"
)

// C06: owed / offered / delivered. "Owed" is ground truth logged when the owing event was
// accepted; "delivered" are the leading system transactions of finalised payloads whose block
// message succeeded; the checker demands per kind: delivered == prefix of owed (exactly once,
// FIFO, nothing invented), caps per block, consecutive per-module nonces, in-block layout,
// and delivered == owed after a drain phase.

type owedItem struct {
	Kind string
	Key  string // identity as the execution layer sees it
	H    int64  // consensus height at which it became owed
}

type c06Mon struct {
	b          *bridgeHist
	wm         *wdMon
	owed       map[string][]owedItem
	delivered  map[string]int // kind -> how many delivered
	nonce      map[uint8]uint64
	unlockSeen map[uint64]bool
}

func sysKey(st world.SysTx) (kind, key string) {
	switch t := st.Tx.(type) {
	case *goattypes.NewBtcBlockTx:
		return "hash", fmt.Sprintf("%x", t.Hash[:])
	case *goattypes.DepositTx:
		return "deposit", fmt.Sprintf("%x/%d->%x amount=%s tax=%s", t.Txid[:], t.TxOut, t.Target[:], t.Amount, t.Tax)
	case *goattypes.PaidTx:
		return "paid", fmt.Sprintf("id=%s txid=%x vout=%d amount=%s", t.Id, t.Txid[:], t.TxOut, t.Amount)
	case *goattypes.Cancel2Tx:
		return "refund", fmt.Sprintf("id=%s", t.Id)
	case *goattypes.DistributeRewardTx:
		return "reward", fmt.Sprintf("id=%d to=%x goat=%s gas=%s", t.Id, t.Recipient[:], t.Goat, t.GasReward)
	case *goattypes.CompleteUnlockTx:
		return "unlock", fmt.Sprintf("id=%d to=%x token=%x amount=%s", t.Id, t.Recipient[:], t.Token[:], t.Amount)
	}
	return "?", ""
}

var c06Caps = map[string]int{"hash": 1, "deposit": 8, "paid+refund": 8, "reward": 16, "unlock": 16}
var c06Order = map[string]int{"hash": 0, "deposit": 1, "paid": 2, "refund": 3, "reward": 4, "unlock": 5}

func (m *c06Mon) owe(kind, key string) {
	m.owed[kind] = append(m.owed[kind], owedItem{kind, key, m.b.lh.ch.Height})
	m.b.lh.c.Count("owed_"+kind, 1)
}

// judgeBlock checks the system transactions of one finalised payload.
func (m *c06Mon) judgeBlock(blk *world.Block) {
	b := m.b
	c := b.lh.c
	if !blk.BlockOK || blk.Payload == nil {
		return
	}
	n := nsys(blk.Payload)
	counts := map[string]int{}
	lastOrder := -1
	for i := 0; i < n && i < len(blk.Payload.Transactions); i++ {
		c.Eval(1)
		st, err := world.DecodeSysTx(blk.Payload.Transactions[i])
		if err != nil {
			b.viol("undecodable system transaction handed to the execution layer", err.Error())
			continue
		}
		kind, key := sysKey(st)
		counts[kind]++
		if o := c06Order[kind]; o < lastOrder {
			b.viol("system transactions out of the per-kind layout inside one block", fmt.Sprintf("%s after a later kind", kind))
		} else {
			lastOrder = o
		}
		// nonces: consecutive per module from the genesis nonce
		if want := m.nonce[st.Module]; st.Nonce != want {
			b.viol("system transaction nonce is not the next one of its module", fmt.Sprintf("module %d %s: nonce %d, expected %d", st.Module, kind, st.Nonce, want))
			m.nonce[st.Module] = st.Nonce + 1
		} else {
			m.nonce[st.Module]++
		}
		// exactly-once, FIFO, nothing invented
		k := m.delivered[kind]
		if k >= len(m.owed[kind]) {
			b.viol("handed over something that is not owed (duplicate or invented): "+kind, key)
		} else if m.owed[kind][k].Key != key {
			b.viol("hand-over is not first-in-first-out or differs from what is owed: "+kind, fmt.Sprintf("delivered %s, next owed %s", key, m.owed[kind][k].Key))
		}
		m.delivered[kind]++
		c.Count("delivered_"+kind, 1)
	}
	for kind, cap := range c06Caps {
		got := counts[kind]
		if kind == "paid+refund" {
			got = counts["paid"] + counts["refund"]
		}
		if got > cap {
			b.viol("per-block cap exceeded: "+kind, fmt.Sprintf("%d > %d", got, cap))
		}
		if got == cap {
			c.Count("blocks_at_cap_"+kind, 1)
		}
	}
	if n > 0 {
		c.Nontrivial("hash=%d dep=%d paid=%d refund=%d reward=%d unlock=%d", counts["hash"], counts["deposit"], counts["paid"], counts["refund"], counts["reward"], counts["unlock"])
	}
}

func queueExports(s *world.Snap) string {
	bz, _ := json.Marshal([]any{s.Bitcoin.EthTxQueue, s.Bitcoin.EthTxNonce, s.Locking.EthTxQueue, s.Locking.EthTxNonce, s.Bitcoin.BlockTip})
	return string(bz)
}

func c06History(c *vc.Ctx, idx int) {
	cfg := lockCfg{Label: "c06", NVals: 2, Blocks: c.Pick(80, 200), Protect0: true, NRelayers: 1 + idx%3, JumpTime: idx%3 == 0,
		W: lockWeights{Lock: 20, Unlock: 45, Claim: 40, Grant: 10, Create: 4},
		Params: func(p *lockingtypes.Params) {
			p.UnlockDuration = 6 * time.Second
			p.ExitingDuration = 12 * time.Second
		}}
	lh, err := newLockHistSchnorr(c, cfg, idx, idx%2 == 1)
	if err != nil {
		c.Inconclusive("setup: %v", err)
		return
	}
	defer lh.close()
	lh.crashFn = func(cr *world.ErrCrash) {
		c.Violation("block processing failed during a hand-over history", cr.Error(), lh.replay())
	}
	b := newBridgeHist(lh)
	b.depositBurst = true
	wm := newWdMon(b)
	m := &c06Mon{b: b, wm: wm, owed: map[string][]owedItem{}, delivered: map[string]int{}, nonce: map[uint8]uint64{}, unlockSeen: map[uint64]bool{}}
	// ---- owed log, from the generator's ground truth ----
	b.onHashes = func(start uint64, hashes [][]byte) {
		for _, h := range hashes {
			m.owe("hash", fmt.Sprintf("%x", h))
		}
	}
	sat := int64(1e10)
	_ = sat
	muts := c03Mutators()
	r := lh.r
	w0 := lh.cfg.W
	lh.cfg.W = lockWeights{}
	if !lh.step() { // first block without requests: the application answers queries only afterwards
		return
	}
	lh.cfg.W = w0
	var addrPool []addrCase
	for _, ac := range c17AddrCases(c.Seed, 9000+idx, 1, regtest) {
		if ac.Str != "" && ac.Expect != 2 {
			addrPool = append(addrPool, ac)
		}
	}
	expectOf := map[string]addrCase{}
	for _, ac := range addrPool {
		expectOf[ac.Str] = ac
	}
	wm.classify = func(a string) []byte {
		if ac, ok := expectOf[a]; ok {
			if ac.Expect == 1 {
				return ac.Script
			}
			return nil
		}
		sc, _, err := scriptOfAddress(a)
		if err != nil {
			return nil
		}
		return sc
	}
	// the withdrawal model's request hook runs first; then refunds owed at creation are logged
	inner := b.onBridgeReqs
	b.onBridgeReqs = func(req *goattypes.BridgeRequests) {
		inner(req)
		for _, w := range req.Withdraws {
			if x := wm.wds[w.Id]; x != nil && x.State == "canceled" {
				m.owe("refund", fmt.Sprintf("id=%d", w.Id))
			}
		}
	}
	creditedSeen := map[string]bool{}
	paidSeen := map[uint64]bool{}
	canceledSeen := map[uint64]bool{}
	abandoned, restarts, forced := 0, 0, 0
	burst := &wdBurst{at: 18 + idx%7, n: 10, refunds: 5}
	for blk := 0; blk < cfg.Blocks && !lh.failed; blk++ {
		if !b.refreshGroup() {
			return
		}
		// ---- directed burst: ten withdrawals are requested, processed as one batch, mined, voted and finalised, and the
		// block that finalises them also refunds a handful of undecodable ones: more than 8 'paid' are due together with
		// 'refund' notices, i.e. the two kinds compete for the shared cap ----
		burst.step(b, wm, blk, c.Seed, idx)
		if blk%2 == 0 {
			c03Gen(b, blk, muts)
			c05Gen(wm, blk, cfg.Blocks, idx, addrPool)
		} else {
			c05Gen(wm, blk, cfg.Blocks, idx, addrPool)
			c03Gen(b, blk, muts)
		}
		// a burst of withdrawals to undecodable addresses: more refunds at once than one block may hand over
		if blk%17 == 9 && blk < cfg.Blocks-25 {
			for k := 0; k < 9+r.Intn(4); k++ {
				b.bridgeReq.Withdraws = append(b.bridgeReq.Withdraws, &goattypes.WithdrawalRequest{Id: wm.next, Amount: 40_000, TxPrice: 3, Address: fmt.Sprintf("junk-%d", wm.next)})
				wm.next++
			}
			lh.logf("EL: burst of withdrawals to undecodable addresses")
		}
		// ---- abandoned rounds: proposals that are prepared (and processed) but never finalised ----
		if blk%4 == 1 {
			before := queueExports(lh.post)
			for k := 0; k < 1+r.Intn(3); k++ {
				h := lh.ch.Height + 1
				t := lh.ch.Now.Add(time.Duration(1+k) * time.Second)
				txs, err := lh.ch.Prepare(0, h, t, nil)
				if err != nil {
					c.Inconclusive("abandoned round prepare: %v", err)
					break
				}
				if r.Intn(2) == 0 {
					if ok, _ := lh.ch.Process(0, 0, h, t, txs, lh.ch.LastCommitInfo(nil), nil); !ok {
						b.viol("honest proposal of an abandoned round was rejected", fmt.Sprintf("height %d", h))
					}
				}
				abandoned++
			}
			s2, err := lh.ch.Node().Snapshot()
			if err == nil && queueExports(s2) != before {
				b.viol("a proposal round that was never finalised consumed hand-over state", fmt.Sprintf("queues/nonces before: %s after: %s", before, queueExports(s2)))
			}
			c.Count("abandoned_rounds", 1)
		}
		if blk%11 == 7 {
			nn, err := lh.ch.Nodes[0].Restart()
			if err != nil {
				c.Inconclusive("restart: %v", err)
				return
			}
			lh.ch.Nodes[0] = nn
			restarts++
			lh.logf("node restarted")
		}
		// ---- a payload whose system transactions were tampered with is forced into FinalizeBlock ----
		forcedNow := false
		if blk%9 == 5 && len(lh.post.Bitcoin.EthTxQueue.Deposits)+len(lh.post.Locking.EthTxQueue.Unlocks)+len(lh.post.Locking.EthTxQueue.Rewards) > 0 {
			forcedNow = true
			forced++
			variant := r.Intn(7)
			lh.cfg.StepOpts = func(so *world.StepOpts) {
				so.NoProcess = true
				so.Mutate = func(txs [][]byte) [][]byte {
					p := world.DecodeBlockTx(lh.ch.W, txs)
					if p == nil || nsys(p) == 0 {
						forcedNow = false
						return txs
					}
					q := clonePayload(p)
					n := nsys(q)
					switch variant {
					case 0: // drop the first
						q.Transactions = append([][]byte{}, q.Transactions[1:]...)
						q.ExtraData = append([]byte{byte(n - 1)}, q.ExtraData[1:]...)
					case 1: // duplicate the first
						q.Transactions = append([][]byte{q.Transactions[0]}, q.Transactions...)
						q.ExtraData = append([]byte{byte(n + 1)}, q.ExtraData[1:]...)
					case 2: // one byte
						t0 := append([]byte(nil), q.Transactions[0]...)
						t0[len(t0)-1] ^= 1
						q.Transactions = append([][]byte{t0}, q.Transactions[1:]...)
					case 3: // withhold the last one
						q.Transactions = append(append([][]byte{}, q.Transactions[:n-1]...), q.Transactions[n:]...)
						q.ExtraData = append([]byte{byte(n - 1)}, q.ExtraData[1:]...)
					case 5, 6: // everything due, byte-exact and in front - followed by a system transaction nobody owes, the count covering it
						surplus := q.Transactions[n-1]
						if variant == 6 {
							surplus = q.Transactions[0]
						}
						q.Transactions = append(append(append([][]byte{}, q.Transactions[:n]...), surplus), q.Transactions[n:]...)
						q.ExtraData = append([]byte{byte(n + 1)}, q.ExtraData[1:]...)
					case 4: // withhold every hand-over of the locking module, keep the bridge ones (count adjusted)
						var keep [][]byte
						for i := 0; i < n; i++ {
							if st, err := world.DecodeSysTx(q.Transactions[i]); err == nil && st.Module == uint8(goattypes.LockingModule) {
								continue
							}
							keep = append(keep, q.Transactions[i])
						}
						if len(keep) == n {
							keep = keep[:n-1]
						}
						q.ExtraData = append([]byte{byte(len(keep))}, q.ExtraData[1:]...)
						q.Transactions = append(keep, q.Transactions[n:]...)
					}
					world.Rehash(q)
					tx, err := lh.ch.BlockTx(0, lh.ch.Height+1, lh.ch.W.ValAddrStr(0), q)
					if err != nil {
						forcedNow = false
						return txs
					}
					lh.logf("forced payload with tampered system transactions (variant %d)", variant)
					return append([][]byte{tx}, txs[1:]...)
				}
			}
		}
		preQ := queueExports(lh.post)
		preLockQ := len(lh.post.Locking.EthTxQueue.Unlocks)
		if !b.runBlock() {
			return
		}
		lh.cfg.StepOpts = nil
		blkRes := lh.blk
		if forcedNow {
			c.Eval(1)
			if blkRes.BlockOK {
				b.viol("payload with tampered system transactions was executed", fmt.Sprintf("height %d", blkRes.Height))
			} else {
				c.Count("tampered_payloads_refused_at_execution", 1)
				// nothing of the bridge hand-over state moved; the locking delivery queue may only have grown (end-of-block sweep)
				var a, bb []any
				_ = json.Unmarshal([]byte(preQ), &a)
				_ = json.Unmarshal([]byte(queueExports(lh.post)), &bb)
				ja, _ := json.Marshal([]any{a[0], a[1], a[3], a[4]})
				jb, _ := json.Marshal([]any{bb[0], bb[1], bb[3], bb[4]})
				// relayer transactions of the same block legitimately add to the bridge queue: compare only when there were none
				if len(blkRes.Req.Txs) == 1 && !bytes.Equal(ja, jb) {
					b.viol("a failed block message consumed hand-over state", fmt.Sprintf("before %s after %s", ja, jb))
				}
				if len(lh.post.Locking.EthTxQueue.Unlocks) < preLockQ {
					b.viol("a failed block message consumed the unlock delivery queue", "")
				}
			}
		}
		// ---- owed log from accepted operations of this block ----
		for _, t := range b.deps {
			if t.Credited && !creditedSeen[t.id()] {
				creditedSeen[t.id()] = true
			}
		}
		// deposits: in the order the chain queued them = order of acceptance; take it from the accepted batches
		for _, it := range b.acceptedDeposits {
			tax := taxOf(it.Value, it.TaxRate, it.TaxCap)
			amt := new(bigInt).SetUint64(it.Value - tax)
			amt.Mul(amt, bigE10)
			tx := new(bigInt).SetUint64(tax)
			tx.Mul(tx, bigE10)
			m.owe("deposit", fmt.Sprintf("%x/%d->%x amount=%s tax=%s", it.Txid, it.Vout, it.Evm, amt, tx))
		}
		b.acceptedDeposits = nil
		for _, ev := range wm.events {
			switch ev.kind {
			case "paid":
				if !paidSeen[ev.id] {
					paidSeen[ev.id] = true
					m.owe("paid", ev.key)
				}
			case "refund":
				if !canceledSeen[ev.id] {
					canceledSeen[ev.id] = true
					m.owe("refund", ev.key)
				}
			}
		}
		wm.events = nil
		// claims: accepted claim requests of this block, with the amounts the module queued
		if blkRes.BlockOK {
			for _, cl := range lh.ops.claims {
				for _, rw := range lh.post.Locking.EthTxQueue.Rewards {
					if rw.Id == cl.ID {
						m.owe("reward", fmt.Sprintf("id=%d to=%x goat=%s gas=%s", rw.Id, rw.Recipient, rw.Goat, rw.Gas))
					}
				}
			}
		}
		// unlocks: owed from the moment they enter the delivery queue (C15 judges when that may happen)
		for _, u := range lh.post.Locking.EthTxQueue.Unlocks {
			if !m.unlockSeen[u.Id] {
				m.unlockSeen[u.Id] = true
				if lh.unlocks[u.Id] == nil {
					b.viol("an unlock that was never requested entered the delivery queue", fmt.Sprint(u.Id))
				}
				m.owe("unlock", fmt.Sprintf("id=%d to=%x token=%x amount=%s", u.Id, u.Recipient, u.Token, u.Amount))
			}
		}
		m.judgeBlock(blkRes)
		// voted heights: append-only, gap-free
		if lh.post.Bitcoin.BlockTip != b.votedTip {
			b.viol("the voted Bitcoin tip differs from the accepted batches", fmt.Sprintf("chain %d, accepted batches %d", lh.post.Bitcoin.BlockTip, b.votedTip))
		}
	}
	if lh.failed {
		return
	}
	// ---- drain: everything owed must have been handed over ----
	backlog := 0
	for kind, o := range m.owed {
		backlog += len(o) - m.delivered[kind]
	}
	drainBlocks := backlog/8 + int(b.votedTip) - int(lh.post.Bitcoin.EthTxQueue.BlockNumber) + 6
	outstanding := func() bool {
		if len(lh.post.Locking.UnlockQueue) > 0 {
			return true // requested unlocks that have not matured yet will still become owed
		}
		for kind, o := range m.owed {
			if m.delivered[kind] < len(o) {
				return true
			}
		}
		return false
	}
	// the bound: the computed drain, then as long as something is outstanding, at most 60 further blocks
	// (the longest delay is 4 blocks; every kind drains at >= 1 item per block)
	for k := 0; (k < drainBlocks || (outstanding() && k < drainBlocks+60)) && !lh.failed; k++ {
		if !b.refreshGroup() {
			return
		}
		lh.cfg.W = lockWeights{}
		dt := lh.ch.Step0
		if k == 0 {
			dt = 20 * time.Second
		}
		_ = dt
		if !b.runBlock() {
			return
		}
		for _, u := range lh.post.Locking.EthTxQueue.Unlocks {
			if !m.unlockSeen[u.Id] {
				m.unlockSeen[u.Id] = true
				m.owe("unlock", fmt.Sprintf("id=%d to=%x token=%x amount=%s", u.Id, u.Recipient, u.Token, u.Amount))
			}
		}
		m.judgeBlock(lh.blk)
	}
	lh.logf("end of drain: votedTip=%d queue.BlockNumber=%d delivered=%v backlog_at_start=%d", b.votedTip, lh.post.Bitcoin.EthTxQueue.BlockNumber, m.delivered, backlog)
	for kind, o := range m.owed {
		c.Eval(1)
		if m.delivered[kind] < len(o) {
			b.viol("owed item never handed over: "+kind, fmt.Sprintf("%d of %d delivered after the drain phase; first missing %s (owed at height %d)", m.delivered[kind], len(o), o[m.delivered[kind]].Key, o[m.delivered[kind]].H))
		}
	}
	// every unlock request that was applied must have come out by now: nothing is maturing any more, so one that never
	// even reached the delivery queue was dropped on the way (C15 judges the timing, this is the 'never dropped' clause)
	if len(lh.post.Locking.UnlockQueue) == 0 && !lh.failed {
		var lost []uint64
		for id, u := range lh.unlocks {
			if u.Applied && u.Delivered == 0 {
				lost = append(lost, id)
			}
		}
		sort.Slice(lost, func(i, j int) bool { return lost[i] < lost[j] })
		c.Eval(1)
		if len(lost) > 0 {
			b.viol("owed item never handed over: unlock lost before the delivery queue", fmt.Sprintf("%d applied unlock requests never handed over although nothing is maturing any more: ids %v", len(lost), lost[:min(len(lost), 10)]))
		}
	}
	// stored hashes of all voted heights are what was voted (never rewritten)
	exp := lh.post.Bitcoin.BlockHashes
	for i, hsh := range exp {
		hgt := lh.post.Bitcoin.BlockTip - uint64(i)
		if hgt == 0 {
			continue
		}
		if want, ok := b.voted[hgt]; ok && !bytes.Equal(want, hsh) {
			b.viol("a voted Bitcoin block hash was rewritten", fmt.Sprintf("height %d", hgt))
		}
	}
	tot := 0
	for _, o := range m.owed {
		tot += len(o)
	}
	if tot < 5 {
		c.Count("histories_in_which_almost_nothing_became_owed", 1) // judged over the whole run (checkconf.json: require_observed)
	}
	c.Sample(map[string]any{"owed": map[string]int{"hash": len(m.owed["hash"]), "deposit": len(m.owed["deposit"]), "paid": len(m.owed["paid"]), "refund": len(m.owed["refund"]), "reward": len(m.owed["reward"]), "unlock": len(m.owed["unlock"])},
		"delivered": m.delivered, "abandoned_rounds": abandoned, "restarts": restarts, "forced_tampered_payloads": forced, "final_nonces": fmt.Sprint(m.nonce)})
}

func init() {
	vc.Register(&vc.Check{
		ID: "C06", Title: "Consensus-to-execution hand-over is exactly-once, ordered and gap-free", Level: "exploration",
		Rule: "one case = one history (80/200 blocks + drain) that fills every queue at once: Bitcoin block hashes voted up to 16 at a time (and hostile batches that start at the tip, after a gap, rewrite an old height, carry 17 hashes), deposits (bursts above the cap of 8), withdrawals paid and refunded (cap 8 shared; a directed burst finalises a ten-withdrawal batch in the block that also refunds five), reward claims and matured unlocks (bursts above 16), with failing relayer messages, 1..3 abandoned proposal rounds (prepared, sometimes processed, never finalised) before every 4th block, a node restart every 11th, and every 9th block a payload whose system transactions were dropped/duplicated/altered/withheld (the last one, or every locking hand-over) forced into FinalizeBlock; " +
			"owed log = generator ground truth at acceptance time; delivered log = leading system txs of finalised payloads whose block message succeeded; checker: per kind delivered is exactly the prefix of owed (once, FIFO, nothing invented), caps 1/8/8/16/16, consecutive nonces per module from 0, in-block layout, tampered payloads fail and consume nothing, abandoned rounds change no queue or nonce, voted tip = accepted batches and no voted hash is rewritten, and after a drain phase delivered = owed. Non-trivial = a finalised payload with system txs; distinct = per-kind counts in the block.",
		Assume: []string{"'never dropped' is judged as bounded progress (drain of backlog/8 + remaining heights + 6 blocks, extended by at most 60 blocks while requested unlocks have not matured or owed items are outstanding)", "unlocks are owed from the moment they enter the delivery queue (C15 judges when they may)"},
		Cases:  func(tier string) int { return map[string]int{"quick": 32, "thorough": 150}[tier] },
		Run:    func(c *vc.Ctx, i int) { c06History(c, i) },
	})
}

var _ = abci.Misbehavior{}
var _ = bitcointypes.DefaultIndex
