package checks

import (
	"crypto/sha256"
	"fmt"
	"time"

	"github.com/btcsuite/btcd/btcutil"
	"github.com/ethereum/go-ethereum/common"
	"github.com/ethereum/go-ethereum/core/types/goattypes"
	ethcrypto "github.com/ethereum/go-ethereum/crypto"
	goatcrypto "github.com/goatnetwork/goat/pkg/crypto"
	bitcointypes "github.com/goatnetwork/goat/x/bitcoin/types"
	relayertypes "github.com/goatnetwork/goat/x/relayer/types"

	"verif/harness/vc"
	"verif/harness/world"
)

type candidate struct {
	m         *world.Member
	regHeight uint64 // height of the add request that registered it (ground truth), 0 = not registered
	state     string // "", pending, boarding, member, removed
	hashOK    bool   // the registered key hash really is sha256(bls key)
	rejoin    bool   // a former member registering again: its account exists, so it is parked for removal instead of boarding
}

// voterProofs builds the two proofs of possession for a registration context.
func voterProofs(m *world.Member, chainID, proposer string, epoch, height uint64, keyHash []byte) (txProof, blsProof []byte) {
	req := relayertypes.NewOnBoardingVoterRequest(height, m.Addr, keyHash)
	doc := relayertypes.VoteSignDoc(req.MethodName(), chainID, proposer, 0, epoch, req.SignDoc())
	ek, err := ethcrypto.ToECDSA(m.Tx.Key)
	if err != nil {
		panic(err)
	}
	sig, err := ethcrypto.Sign(doc, ek)
	if err != nil {
		panic(err)
	}
	return sig[:64], goatcrypto.Sign(m.BLS, doc)
}

func c16Invariants(c *vc.Ctx, ch *world.Chain, post *world.Snap, viol func(string, string)) {
	rel := post.Relayer.Relayer
	c.Eval(1)
	if rel == nil || rel.Proposer == "" {
		viol("the relayer group has no proposer", "")
		return
	}
	voters := map[string]relayertypes.Voter{}
	for _, v := range post.Relayer.Voters {
		voters[string(v.Address)] = v
	}
	addrOf := func(bech string) string {
		for _, v := range post.Relayer.Voters {
			if s, _ := btcBech(ch, v.Address); s == bech {
				return string(v.Address)
			}
		}
		return ""
	}
	pa := addrOf(rel.Proposer)
	if pa == "" {
		viol("the proposer has no voter record", rel.Proposer)
	} else if st := voters[pa].Status; st != relayertypes.VOTER_STATUS_ACTIVATED && st != relayertypes.VOTER_STATUS_OFF_BOARDING {
		viol("the proposer is not a current member", fmt.Sprintf("%s has status %s", rel.Proposer, st))
	}
	seen := map[string]bool{rel.Proposer: true}
	for _, v := range rel.Voters {
		if v == rel.Proposer {
			viol("the proposer is listed among the voters", v)
		}
		if seen[v] {
			viol("a member is listed twice", v)
		}
		seen[v] = true
		a := addrOf(v)
		if a == "" {
			viol("a listed voter has no voter record", v)
			continue
		}
		if st := voters[a].Status; st != relayertypes.VOTER_STATUS_ACTIVATED && st != relayertypes.VOTER_STATUS_OFF_BOARDING {
			viol("a listed voter is not an activated member", fmt.Sprintf("%s has status %s", v, st))
		}
	}
	// the query service must tell the same story
	var qr relayertypes.QueryRelayerResponse
	if err := ch.Node().Query("/goat.relayer.v1.Query/Relayer", &relayertypes.QueryRelayerRequest{}, &qr); err == nil {
		if qr.Relayer.Proposer != rel.Proposer || len(qr.Relayer.Voters) != len(rel.Voters) || qr.Relayer.Epoch != rel.Epoch {
			viol("Query/Relayer differs from the exported relayer state", "")
		}
	}
}

func btcBech(ch *world.Chain, addr []byte) (string, error) {
	return sdkAcc(addr), nil
}

func c16History(c *vc.Ctx, idx int) {
	r := world.NewRand(c.Seed, "c16", idx)
	n := 1 + idx%4
	period := 15 * time.Second
	timeout := 6 * time.Second
	if idx%5 == 4 {
		timeout = 0
	}
	if idx%5 == 3 {
		timeout = 40 * time.Second // longer than the electing period (the parameters allow it): the period alone decides
	}
	w, err := world.New(world.Config{Seed: c.Seed, Label: fmt.Sprintf("c16-%d", idx), NRelayers: n,
		Relayer: func(g *relayertypes.GenesisState) {
			g.Params.ElectingPeriod = period
			g.Params.AcceptProposerTimeout = timeout
		}})
	if err != nil {
		c.Inconclusive("world: %v", err)
		return
	}
	ch, err := world.NewChain(w)
	if err != nil {
		c.Inconclusive("chain: %v", err)
		w.Cleanup()
		return
	}
	defer ch.Close()
	var opsLog []string
	logf := func(f string, a ...any) {
		opsLog = append(opsLog, fmt.Sprintf("h=%d ", ch.Height+1)+fmt.Sprintf(f, a...))
	}
	viol := func(sig, detail string) {
		c.Violation(sig, fmt.Sprintf("height %d: %s", ch.Height, detail), map[string]any{"history": idx, "ops": lastN(opsLog, 60)})
	}
	if _, err := ch.Step(world.StepOpts{}); err != nil {
		c.Inconclusive("first block: %v", err)
		return
	}
	var cands []*candidate
	// model of 'the proposer has accepted its role': genesis value, true after any successful relayer message of the
	// proposer, false again whenever an election seats another proposer (by rotation or because the old one was removed)
	modelAccepted, modelKnown := false, false
	pools := func() [][]*world.Member {
		p := [][]*world.Member{w.Members}
		var cm []*world.Member
		for _, cd := range cands {
			cm = append(cm, cd.m)
		}
		return append(p, cm)
	}
	bm := newBridgeModel(c.Seed, w.BtcKey)
	blocks := c.Pick(60, 160)
	joins, elections := 0, 0
	for blk := 0; blk < blocks; blk++ {
		pre, err := ch.Node().Snapshot()
		if err != nil {
			c.Inconclusive("snapshot: %v", err)
			return
		}
		g, err := ch.Group(pools()...)
		if err != nil {
			viol("the proposer is not a known member", err.Error())
			return
		}
		rel := pre.Relayer.Relayer
		if !modelKnown {
			modelAccepted, modelKnown = rel.ProposerAccepted, true
		}
		if rel.ProposerAccepted != modelAccepted {
			viol("proposer-accepted flag differs from what happened", fmt.Sprintf("state %v, history says %v (proposer %s, epoch %d)", rel.ProposerAccepted, modelAccepted, rel.Proposer, rel.Epoch))
		}
		// ---- block time around the election edges ----
		dt := 3 * time.Second
		elapsed := ch.Now.Sub(rel.LastElected)
		switch r.Intn(8) {
		case 0:
			if d := period - elapsed - time.Nanosecond; d > 0 {
				dt = d
			}
		case 1:
			if d := period - elapsed; d > 0 {
				dt = d
			}
		case 2:
			if d := timeout - elapsed - time.Nanosecond; timeout > 0 && d > 0 {
				dt = d
			}
		case 3:
			if d := timeout - elapsed; timeout > 0 && d > 0 {
				dt = d
			}
		case 4:
			if d := timeout - elapsed + time.Nanosecond; timeout > 0 && d > 0 {
				dt = d
			}
		}
		blockTime := ch.Now.Add(dt)
		// ---- execution-layer membership requests ----
		var rq goattypes.RelayerRequests
		statusOf := func(addr []byte) relayertypes.VoterStatus {
			for _, v := range pre.Relayer.Voters {
				if string(v.Address) == string(addr) {
					return v.Status
				}
			}
			return relayertypes.VOTER_STATUS_UNSPECIFIED
		}
		if r.Intn(3) == 0 {
			k := 1 + r.Intn(2)
			for i := 0; i < k; i++ {
				m := world.NewMember(c.Seed, fmt.Sprintf("cand-%d", idx), len(cands))
				if r.Intn(4) == 0 {
					// a candidate that registers the vote key of an existing member or candidate (nothing in the registration
					// forbids it): two seats then share one key, and each seat still needs its own signature in a quorum
					pool := append([]*world.Member{}, w.Members...)
					for _, x := range cands {
						pool = append(pool, x.m)
					}
					tw := pool[r.Intn(len(pool))]
					m.BLS, m.BLSPub = tw.BLS, tw.BLSPub
					c.Count("candidates_sharing_a_vote_key", 1)
				}
				cd := &candidate{m: m, hashOK: true}
				kh := sha256.Sum256(m.BLSPub)
				if r.Intn(6) == 0 { // registered with a hash that is not the hash of its key
					kh[0] ^= 1
					cd.hashOK = false
				}
				cands = append(cands, cd)
				rq.Adds = append(rq.Adds, &goattypes.AddVoterRequest{Voter: common.BytesToAddress(m.Addr), Pubkey: common.BytesToHash(kh[:])})
				cd.regHeight = uint64(ch.Height + 1)
				cd.state = "pending"
				logf("EL: add voter cand%d (hash ok=%v)", len(cands)-1, cd.hashOK)
			}
		}
		if r.Intn(4) == 0 {
			// a re-joining address: a former member (its record was deleted by an election, its account still exists)
			// is registered again, with the right key hash; it can then prove possession like any other candidate
			pool := append([]*world.Member{}, w.Members...)
			for _, cd := range cands {
				pool = append(pool, cd.m)
			}
			var former []*world.Member
			for _, m := range pool {
				if _, _, has := ch.Account(m.Addr); has && statusOf(m.Addr) == relayertypes.VOTER_STATUS_UNSPECIFIED {
					former = append(former, m)
				}
			}
			if len(former) > 0 {
				m := former[r.Intn(len(former))]
				var cd *candidate
				for _, x := range cands {
					if x.m == m {
						cd = x
					}
				}
				if cd == nil {
					cd = &candidate{m: m}
					cands = append(cands, cd)
				}
				kh := sha256.Sum256(m.BLSPub)
				cd.hashOK, cd.rejoin, cd.state, cd.regHeight = true, true, "pending", uint64(ch.Height+1)
				rq.Adds = append(rq.Adds, &goattypes.AddVoterRequest{Voter: common.BytesToAddress(m.Addr), Pubkey: common.BytesToHash(kh[:])})
				c.Count("former_members_registered_again", 1)
				logf("EL: add a former member again (%s)", m.AddrStr)
			}
		}
		if r.Intn(8) == 0 && len(cands) > 0 { // add again: existing record, must be ignored
			cd := cands[r.Intn(len(cands))]
			kh := sha256.Sum256([]byte("other"))
			rq.Adds = append(rq.Adds, &goattypes.AddVoterRequest{Voter: common.BytesToAddress(cd.m.Addr), Pubkey: common.BytesToHash(kh[:])})
			logf("EL: add an address that may already be registered")
		}
		if r.Intn(3) == 0 {
			switch r.Intn(6) {
			case 0: // everybody
				rq.Removes = append(rq.Removes, &goattypes.RemoveVoterRequest{Voter: common.BytesToAddress(g.Proposer.Addr)})
				for _, v := range g.Voters {
					if v != nil {
						rq.Removes = append(rq.Removes, &goattypes.RemoveVoterRequest{Voter: common.BytesToAddress(v.Addr)})
					}
				}
				logf("EL: remove every member")
			case 1: // the proposer
				rq.Removes = append(rq.Removes, &goattypes.RemoveVoterRequest{Voter: common.BytesToAddress(g.Proposer.Addr)})
				logf("EL: remove the proposer")
			case 2, 3: // one voter, possibly twice
				if len(g.Voters) > 0 && g.Voters[0] != nil {
					v := g.Voters[r.Intn(len(g.Voters))]
					if v != nil {
						rq.Removes = append(rq.Removes, &goattypes.RemoveVoterRequest{Voter: common.BytesToAddress(v.Addr)})
						if r.Intn(2) == 0 {
							rq.Removes = append(rq.Removes, &goattypes.RemoveVoterRequest{Voter: common.BytesToAddress(v.Addr)})
						}
						logf("EL: remove voter %s", v.AddrStr)
					}
				}
			case 4: // a pending or boarding candidate, an unknown address
				if len(cands) > 0 {
					rq.Removes = append(rq.Removes, &goattypes.RemoveVoterRequest{Voter: common.BytesToAddress(cands[r.Intn(len(cands))].m.Addr)})
				}
				rq.Removes = append(rq.Removes, &goattypes.RemoveVoterRequest{Voter: common.HexToAddress("0x00000000000000000000000000000000000000cc")})
				logf("EL: remove a candidate and an unknown address")
			}
		}
		// ---- relayer transactions ----
		type item struct {
			desc  string
			msg   sdkMsg
			judge func(code uint32, log string)
		}
		var items []item
		for ci, cd := range cands {
			if r.Intn(3) != 0 {
				continue
			}
			st := statusOf(cd.m.Addr)
			if st == relayertypes.VOTER_STATUS_UNSPECIFIED {
				continue
			}
			kh := sha256.Sum256(cd.m.BLSPub)
			var regHash []byte
			var regHeight uint64
			for _, v := range pre.Relayer.Voters {
				if string(v.Address) == string(cd.m.Addr) {
					regHash, regHeight = v.VoteKey, v.Height
				}
			}
			variant := []string{"valid", "valid", "valid", "other-chain", "other-epoch", "other-height", "other-proposer", "tx-proof-by-other-key", "bls-proof-by-other-key", "other-bls-key", "other-bls-key-with-its-own-hash", "swapped-proofs"}[r.Intn(12)]
			chainID, prop, epoch, height := w.Cfg.ChainID, g.Proposer.AddrStr, g.Epoch, cd.regHeight
			signer := cd.m
			switch variant {
			case "other-chain":
				chainID = "goat-other-1"
			case "other-epoch":
				epoch += 1 + uint64(r.Intn(2))
				if r.Intn(2) == 0 && g.Epoch > 0 {
					epoch = g.Epoch - 1
				}
			case "other-height":
				height++
			case "other-proposer":
				prop = cd.m.AddrStr
			}
			hashForDoc := kh[:]
			if st == relayertypes.VOTER_STATUS_PENDING && len(regHash) == 32 {
				hashForDoc = regHash
			}
			txp, blsp := voterProofs(signer, chainID, prop, epoch, height, hashForDoc)
			blsKey := cd.m.BLSPub
			switch variant {
			case "tx-proof-by-other-key":
				o := world.NewMember(c.Seed, "imp", ci)
				o.Addr = cd.m.Addr
				txp, _ = voterProofs(o, chainID, prop, epoch, height, hashForDoc)
			case "bls-proof-by-other-key":
				o := world.NewMember(c.Seed, "imp", ci)
				_, blsp = voterProofs(o, chainID, prop, epoch, height, hashForDoc)
			case "other-bls-key":
				o := world.NewMember(c.Seed, "imp2", ci)
				blsKey = o.BLSPub
				_, blsp = voterProofs(&world.Member{Tx: cd.m.Tx, BLS: o.BLS, Addr: cd.m.Addr}, chainID, prop, epoch, height, hashForDoc)
			case "other-bls-key-with-its-own-hash":
				// another vote key, and both proofs made - consistently - over the hash of that other key instead of the hash the
				// execution layer registered
				o := world.NewMember(c.Seed, "imp3", ci)
				blsKey = o.BLSPub
				oh := sha256.Sum256(o.BLSPub)
				txp, blsp = voterProofs(&world.Member{Tx: cd.m.Tx, BLS: o.BLS, Addr: cd.m.Addr}, chainID, prop, epoch, height, oh[:])
			case "swapped-proofs":
				txp, blsp = append([]byte(nil), blsp...), append([]byte(nil), txp...)
				for len(txp) < 64 {
					txp = append(txp, 0)
				}
				txp, blsp = txp[:64], blsp[:48]
			}
			msg := &relayertypes.MsgNewVoterRequest{Proposer: g.Proposer.AddrStr, VoterBlsKey: blsKey, VoterTxKey: cd.m.Tx.PubKey().Bytes(), VoterTxKeyProof: txp, VoterBlsKeyProof: blsp}
			cd := cd
			genuine := variant == "valid" && cd.hashOK && st == relayertypes.VOTER_STATUS_PENDING && regHeight == cd.regHeight
			items = append(items, item{fmt.Sprintf("new-voter cand%d [%s] status=%s", ci, variant, st), msg, func(code uint32, log string) {
				c.Eval(1)
				c.Nontrivial("new-voter variant=%s status=%s hashok=%v accepted=%v", variant, st, cd.hashOK, code == 0)
				if code == 0 {
					if !genuine {
						viol("a voter was admitted without valid proofs bound to this chain, epoch, registration and proposer: "+variant, fmt.Sprintf("cand%d status %s hash ok=%v registered at %d (record says %d)", ci, st, cd.hashOK, cd.regHeight, regHeight))
					}
					cd.state = "boarding"
					if cd.rejoin {
						cd.state = "parked" // its account exists: the code parks it for removal at the next election
						c.Count("rejoining_addresses_proven", 1)
					}
					joins++
					c.Count("voters_admitted", 1)
				} else if genuine {
					c.Count("genuine_registrations_rejected", 1)
					logf("genuine registration rejected: %s", log)
				} else {
					c.Count("forged_registrations_rejected", 1)
				}
			}})
		}
		if !g.Accepted && r.Intn(2) == 0 {
			ep := g.Epoch
			bad := r.Intn(3) == 0
			if bad {
				ep++
			}
			items = append(items, item{fmt.Sprintf("accept-proposer epoch=%d", ep), &relayertypes.MsgAcceptProposerRequest{Proposer: g.Proposer.AddrStr, Epoch: ep}, func(code uint32, log string) {
				if code == 0 && bad {
					viol("proposer acceptance for another epoch was accepted", "")
				}
			}})
		}
		// a quorum vote; a boarding voter's signature must not count before the next election
		if r.Intn(3) == 0 {
			msg, _ := bm.payload("consolidation", g.Proposer.AddrStr, blk)
			known := true
			for _, v := range g.Voters {
				if v == nil {
					known = false
				}
			}
			if known {
				if v, err := ch.QuorumVote(g, msg); err == nil {
					setVote(msg, v)
					items = append(items, item{"quorum vote by the current members", msg, func(code uint32, log string) {
						if code == 0 {
							c.Count("quorum_votes_accepted", 1)
						} else {
							c.Count("quorum_votes_rejected", 1)
							logf("quorum vote rejected: %s", log)
						}
					}})
				}
				// two seated voters (or the proposer and a voter) sharing one vote key: a vote that marks both seats but carries
				// the shared key's signature only once has one genuine signer fewer than marks + 1
				twinDone := false
				{
					seats := append([]*world.Member{g.Proposer}, g.Voters...)
					a, bIdx := -1, -1
					for i := 0; i < len(seats) && a < 0; i++ {
						for j := i + 1; j < len(seats); j++ {
							if seats[i] != nil && seats[j] != nil && string(seats[i].BLSPub) == string(seats[j].BLSPub) {
								a, bIdx = i, j
								break
							}
						}
					}
					need := world.Threshold(len(g.Voters)) // signers incl. the proposer
					if a >= 0 && need >= 2 && need <= len(seats) {
						// marks: both twins (seat 0 is the proposer and has no mark), then others up to need-1 marks
						var marks []int
						signers := []*world.Member{g.Proposer}
						if a > 0 {
							marks = append(marks, a-1)
						}
						marks = append(marks, bIdx-1)
						// of the twins only the first one signs (the proposer always signs)
						if a > 0 {
							signers = append(signers, seats[a])
						}
						for i := 1; i < len(seats) && len(marks) < need-1; i++ {
							if i != a && i != bIdx {
								marks = append(marks, i-1)
								signers = append(signers, seats[i])
							}
						}
						if len(marks) == need-1 {
							m3, _ := bm.payload("consolidation", g.Proposer.AddrStr, blk+9000)
							v, err := world.MakeVote(m3, world.VoteCtx{ChainID: w.Cfg.ChainID, Proposer: g.Proposer.AddrStr, Seq: g.Seq + 1, Epoch: g.Epoch}, signers, world.Bitmap(marks, 8*((len(g.Voters))/64+1)))
							if err == nil {
								setVote(m3, v)
								twinDone = true
								items = append(items, item{"vote marking two seats that share a vote key, signed once with it", m3, func(code uint32, log string) {
									c.Eval(1)
									if code == 0 {
										viol("a marked seat's key took no part in the verification: two seats sharing a vote key were counted on one signature", fmt.Sprintf("%d members, threshold %d, %d genuine signers", len(seats), need, len(signers)))
									}
									c.Count("shared_key_votes_one_signature_short_rejected", 1)
								}})
							}
						}
					}
				}
				for _, cd := range cands {
					if twinDone {
						break
					}
					if cd.state == "boarding" && statusOf(cd.m.Addr) == relayertypes.VOTER_STATUS_ON_BOARDING {
						// the boarding voter stands in for the last needed member: marks beyond the list or a missing signer
						m2, _ := bm.payload("consolidation", g.Proposer.AddrStr, blk+7000)
						need := world.Threshold(len(g.Voters)) - 1
						if need >= 1 {
							signers := []*world.Member{g.Proposer, cd.m}
							marks := []int{len(g.Voters)}
							for i := 0; i < need-1; i++ {
								signers = append(signers, g.Voters[i])
								marks = append(marks, i)
							}
							v, err := world.MakeVote(m2, world.VoteCtx{ChainID: w.Cfg.ChainID, Proposer: g.Proposer.AddrStr, Seq: g.Seq + 1, Epoch: g.Epoch}, signers, world.Bitmap(marks, 8*((len(g.Voters))/64+1)))
							if err == nil {
								// it runs after the genuine vote above, hence sequence+1; if that one is absent the sequence is simply wrong
								setVote(m2, v)
								items = append(items, item{"vote counting a voter that boards only at the next election", m2, func(code uint32, log string) {
									c.Eval(1)
									if code == 0 {
										viol("a voter took part in a quorum before the election that seats it", "")
									}
									c.Count("early_votes_of_boarding_voters_rejected", 1)
								}})
							}
						}
						break
					}
				}
			}
		}
		if len(items) > 14 {
			items = items[:14]
		}
		num, aseq, ok := ch.Account(g.Proposer.Addr)
		if !ok {
			c.Inconclusive("no proposer account")
			return
		}
		for i, it := range items {
			raw, err := w.SignTx(world.TxSpec{Msgs: []sdkMsg{it.msg}, Priv: g.Proposer.Tx, AccNum: num, Seq: aseq + uint64(i)})
			if err != nil {
				c.Inconclusive("sign: %v", err)
				return
			}
			ch.Inject(raw)
			logf("tx %d: %s", i, it.desc)
		}
		b, err := ch.Step(world.StepOpts{Dt: dt, Reqs: &world.Requests{Relayer: rq}})
		if err != nil {
			viol("end-of-block logic failed on relayer membership requests", err.Error())
			return
		}
		anyOK := false
		for i, it := range items {
			res := b.Resp.TxResults[i+1]
			if res.Code == 0 {
				anyOK = true
			} else {
				logf("  tx %d failed: %s", i, failClass(res.Log))
			}
			it.judge(res.Code, res.Log)
		}
		if !b.BlockOK {
			viol("the block message failed on relayer membership requests", b.Resp.TxResults[0].Log)
		}
		post, err := ch.Node().Snapshot()
		if err != nil {
			c.Inconclusive("snapshot: %v", err)
			return
		}
		c16Invariants(c, ch, post, viol)
		// ---- election timing ----
		c.Eval(1)
		d := blockTime.Sub(rel.LastElected)
		acceptedEnd := modelAccepted || anyOK
		want := d >= period || (!acceptedEnd && timeout != 0 && d >= timeout)
		got := post.Relayer.Relayer.Epoch - rel.Epoch
		switch {
		case want && got != 1:
			viol("no election although it was due", fmt.Sprintf("elapsed %s period %s timeout %s accepted=%v: epoch %d -> %d", d, period, timeout, acceptedEnd, rel.Epoch, post.Relayer.Relayer.Epoch))
		case !want && got != 0:
			viol("election although none was due", fmt.Sprintf("elapsed %s period %s timeout %s accepted=%v: epoch %d -> %d", d, period, timeout, acceptedEnd, rel.Epoch, post.Relayer.Relayer.Epoch))
		}
		modelAccepted = acceptedEnd
		if got == 1 {
			// an election seats a new proposer unless the proposer is the only member; a new proposer has not accepted yet
			if post.Relayer.Relayer.Proposer != rel.Proposer {
				modelAccepted = false
			} else {
				modelAccepted = post.Relayer.Relayer.ProposerAccepted
			}
			elections++
			c.Count("elections", 1)
			if !post.Relayer.Relayer.LastElected.Equal(blockTime) {
				viol("election time not recorded", "")
			}
			// "awaiting removal at the next election": a member that was awaiting removal before this block is gone now
			wasLeaving := map[string]bool{}
			for _, v := range pre.Relayer.Voters {
				if v.Status == relayertypes.VOTER_STATUS_OFF_BOARDING {
					if s, err := btcBech(ch, v.Address); err == nil {
						wasLeaving[s] = true
					}
				}
			}
			for _, m := range append([]string{post.Relayer.Relayer.Proposer}, post.Relayer.Relayer.Voters...) {
				if wasLeaving[m] {
					viol("a member awaiting removal is still a member after the election", fmt.Sprintf("%s (epoch %d -> %d)", m, rel.Epoch, post.Relayer.Relayer.Epoch))
				}
			}
			c.Count("elections_checked_for_leftover_leaving_members", 1)
			// boarding voters are seated now, off-boarding ones are gone
			for _, cd := range cands {
				if cd.state == "boarding" {
					cd.state = "member"
				}
			}
		}
		c.Nontrivial("members=%d due=%v edge=%s adds=%d removes=%d", 1+len(post.Relayer.Relayer.Voters), want, edgeClass(d, period, timeout), len(rq.Adds), len(rq.Removes))
		// a boarding voter must not be listed before an election
		for _, cd := range cands {
			if cd.state == "boarding" {
				for _, v := range post.Relayer.Relayer.Voters {
					if v == cd.m.AddrStr {
						viol("a voter was seated before the election", cd.m.AddrStr)
					}
				}
			}
		}
	}
	if elections == 0 {
		c.Count("histories_without_an_election", 1) // judged over the whole run (checkconf.json: require_observed)
	}
	c.Sample(map[string]any{"genesis_members": n, "candidates": len(cands), "admitted": joins, "elections": elections, "accept_timeout": timeout.String(), "last_ops": lastN(opsLog, 5)})
}

func edgeClass(d, period, timeout time.Duration) string {
	switch {
	case d == period:
		return "period"
	case d == period-time.Nanosecond:
		return "period-1ns"
	case timeout > 0 && d == timeout:
		return "timeout"
	case timeout > 0 && d == timeout-time.Nanosecond:
		return "timeout-1ns"
	case timeout > 0 && d == timeout+time.Nanosecond:
		return "timeout+1ns"
	case d > period:
		return ">period"
	}
	return "inside"
}

func init() {
	vc.Register(&vc.Check{
		ID: "C16", Title: "Relayer group stays well-formed; members join by proof, elections are timely", Level: "exploration",
		Rule: "one case = one history (60/160 blocks, genesis groups of 1..4, electing period 15 s, acceptance timeout 6 s, 0 or 40 s) with execution-layer add requests (fresh candidates, some registered under a wrong key hash, re-adds) and remove requests (everybody, the proposer, one voter once or twice, pending/boarding candidates, unknown addresses), MsgNewVoter in 10 proof variants (valid; bound to another chain, epoch, registration height or proposer; ECDSA or BLS proof by another key; another BLS key, with the registered hash or with its own hash in both proofs; swapped proofs) on candidates in every status, proposer acceptances (right and wrong epoch), quorum votes incl. one that counts a voter who boards only at the next election, and block times placed at period-1ns, period, timeout-1ns, timeout, timeout+1ns; " +
			"after every commit: one proposer that is an activated/off-boarding member and not among the voters, members distinct with records, group never empty, Query/Relayer consistent; admission only with ground-truth-valid proofs; a boarding voter is not listed or counted before an election; a member that awaited removal before an election is gone after it; epoch += 1 exactly when elapsed >= period or (not accepted and timeout != 0 and elapsed >= timeout); FinalizeBlock never fails. Non-trivial = every block; distinct = (members, election due, time edge, adds, removes) and registration variants.",
		Assume: []string{"'proposer accepted' at the end of a block = accepted before, or any relayer message of the proposer succeeded in the block"},
		Cases:  func(tier string) int { return map[string]int{"quick": 48, "thorough": 200}[tier] },
		Run:    func(c *vc.Ctx, i int) { c16History(c, i) },
	})
}

var _ = btcutil.Hash160
var _ = bitcointypes.DefaultIndex
