package checks

import (
	"fmt"
	"math/big"
	"os"
	"strings"

	"github.com/btcsuite/btcd/btcutil"
	"github.com/ethereum/go-ethereum/core/types/goattypes"
	bitcointypes "github.com/goatnetwork/goat/x/bitcoin/types"
	relayertypes "github.com/goatnetwork/goat/x/relayer/types"

	"verif/harness/vc"
	"verif/harness/world"
)

type wdState struct{} // placeholder

// depMutators: each takes a truthful deposit item (and its header list) and distorts it.
type depMutator struct {
	name string
	f    func(b *bridgeHist, t *depTruth, d *bitcointypes.Deposit, hs *[]*bitcointypes.BlockHeader) bool
}

func c03Mutators() []depMutator {
	flip := func(x []byte, i int) []byte {
		y := append([]byte(nil), x...)
		if len(y) > 0 {
			y[i%len(y)] ^= 1
		}
		return y
	}
	return []depMutator{
		{"header-of-another-height", func(b *bridgeHist, t *depTruth, d *bitcointypes.Deposit, hs *[]*bitcointypes.BlockHeader) bool {
			o := b.bc.Blocks[1+(t.Block.Height%b.bc.Tip)]
			if o == nil || o.Height == t.Block.Height {
				return false
			}
			*hs = []*bitcointypes.BlockHeader{{Height: t.Block.Height, Raw: o.Header}}
			return true
		}},
		{"header-byte-changed", func(b *bridgeHist, t *depTruth, d *bitcointypes.Deposit, hs *[]*bitcointypes.BlockHeader) bool {
			*hs = []*bitcointypes.BlockHeader{{Height: t.Block.Height, Raw: flip(t.Block.Header, 40+b.lh.r.Intn(30))}}
			return true
		}},
		{"header-merkle-root-forged", func(b *bridgeHist, t *depTruth, d *bitcointypes.Deposit, hs *[]*bitcointypes.BlockHeader) bool {
			// a header that commits to a tree of the attacker's choice
			fake := b.bc.FillerTx(b.depositOutsFor(t)...)
			raw := world.NoWitness(fake)
			tree := world.NewMerkleTree([][]byte{world.DSha(world.NoWitness(b.bc.FillerTx())), world.DSha(raw)})
			h := append([]byte(nil), t.Block.Header...)
			copy(h[36:68], tree.Root())
			*hs = []*bitcointypes.BlockHeader{{Height: t.Block.Height, Raw: h}}
			d.NoWitnessTx, d.TxIndex, d.IntermediateProof = raw, 1, tree.Proof(1)
			return true
		}},
		{"header-wrong-length", func(b *bridgeHist, t *depTruth, d *bitcointypes.Deposit, hs *[]*bitcointypes.BlockHeader) bool {
			*hs = []*bitcointypes.BlockHeader{{Height: t.Block.Height, Raw: t.Block.Header[:79]}}
			return true
		}},
		{"header-missing", func(b *bridgeHist, t *depTruth, d *bitcointypes.Deposit, hs *[]*bitcointypes.BlockHeader) bool {
			*hs = []*bitcointypes.BlockHeader{{Height: t.Block.Height + 1, Raw: t.Block.Header}}
			return true
		}},
		{"proof-truncated", func(b *bridgeHist, t *depTruth, d *bitcointypes.Deposit, hs *[]*bitcointypes.BlockHeader) bool {
			if len(d.IntermediateProof) < 32 {
				return false
			}
			d.IntermediateProof = d.IntermediateProof[:len(d.IntermediateProof)-32]
			d.TxIndex >>= 1
			return true
		}},
		{"proof-extended", func(b *bridgeHist, t *depTruth, d *bitcointypes.Deposit, hs *[]*bitcointypes.BlockHeader) bool {
			d.IntermediateProof = append(append([]byte(nil), d.IntermediateProof...), make([]byte, 32)...)
			return true
		}},
		{"proof-ragged", func(b *bridgeHist, t *depTruth, d *bitcointypes.Deposit, hs *[]*bitcointypes.BlockHeader) bool {
			// a genuine path followed by 1..31 bytes: not a whole number of nodes
			d.IntermediateProof = append(append([]byte(nil), d.IntermediateProof...), make([]byte, 1+b.lh.r.Intn(31))...)
			return true
		}},
		{"header-listed-twice", func(b *bridgeHist, t *depTruth, d *bitcointypes.Deposit, hs *[]*bitcointypes.BlockHeader) bool {
			// the genuine header and a second entry for the same height (the batch then has more headers than deposits)
			*hs = append(*hs, &bitcointypes.BlockHeader{Height: t.Block.Height, Raw: flip(t.Block.Header, 70)})
			return true
		}},
		{"proof-bitflip", func(b *bridgeHist, t *depTruth, d *bitcointypes.Deposit, hs *[]*bitcointypes.BlockHeader) bool {
			if len(d.IntermediateProof) == 0 {
				return false
			}
			d.IntermediateProof = flip(d.IntermediateProof, b.lh.r.Intn(len(d.IntermediateProof)))
			return true
		}},
		{"position+1", func(b *bridgeHist, t *depTruth, d *bitcointypes.Deposit, hs *[]*bitcointypes.BlockHeader) bool {
			d.TxIndex++
			return true
		}},
		{"position-aliased", func(b *bridgeHist, t *depTruth, d *bitcointypes.Deposit, hs *[]*bitcointypes.BlockHeader) bool {
			d.TxIndex += uint32(1+b.lh.r.Intn(3)) << uint(t.Block.Tree.Depth())
			return true
		}},
		{"other-output-index", func(b *bridgeHist, t *depTruth, d *bitcointypes.Deposit, hs *[]*bitcointypes.BlockHeader) bool {
			if d.Version == 1 && b.lh.r.Intn(2) == 0 {
				d.OutputIndex = 2 // the third output of a version-1 transaction (a payment to somebody else)
			} else {
				d.OutputIndex ^= 1
			}
			return true
		}},
		{"other-evm-address", func(b *bridgeHist, t *depTruth, d *bitcointypes.Deposit, hs *[]*bitcointypes.BlockHeader) bool {
			d.EvmAddress = flip(d.EvmAddress, b.lh.r.Intn(20))
			return true
		}},
		{"unregistered-relayer-key", func(b *bridgeHist, t *depTruth, d *bitcointypes.Deposit, hs *[]*bitcointypes.BlockHeader) bool {
			d.RelayerPubkey = world.BtcPubKey(world.Derive(99, "unreg", b.lh.r.Intn(1000)), b.lh.r.Intn(2) == 0)
			return true
		}},
		{"other-registered-key", func(b *bridgeHist, t *depTruth, d *bitcointypes.Deposit, hs *[]*bitcointypes.BlockHeader) bool {
			for _, k := range b.keys {
				if string(relayertypes.EncodePublicKey(k)) != string(relayertypes.EncodePublicKey(t.Key)) {
					d.RelayerPubkey = k
					return true
				}
			}
			return false
		}},
		{"version-swapped", func(b *bridgeHist, t *depTruth, d *bitcointypes.Deposit, hs *[]*bitcointypes.BlockHeader) bool {
			d.Version ^= 1
			return true
		}},
		{"version-2", func(b *bridgeHist, t *depTruth, d *bitcointypes.Deposit, hs *[]*bitcointypes.BlockHeader) bool {
			d.Version = 2
			return true
		}},
		{"tx-byte-changed", func(b *bridgeHist, t *depTruth, d *bitcointypes.Deposit, hs *[]*bitcointypes.BlockHeader) bool {
			d.NoWitnessTx = flip(d.NoWitnessTx, 50+b.lh.r.Intn(20))
			return true
		}},
		{"tx-not-in-block", func(b *bridgeHist, t *depTruth, d *bitcointypes.Deposit, hs *[]*bitcointypes.BlockHeader) bool {
			// a transaction paying the same script that was never mined
			d.NoWitnessTx = world.NoWitness(b.bc.FillerTx(b.depositOutsFor(t)...))
			return true
		}},
		{"tx-too-small", func(b *bridgeHist, t *depTruth, d *bitcointypes.Deposit, hs *[]*bitcointypes.BlockHeader) bool {
			d.NoWitnessTx = d.NoWitnessTx[:[]int{64, 65, 93}[b.lh.r.Intn(3)]]
			return true
		}},
		{"nil-relayer-key", func(b *bridgeHist, t *depTruth, d *bitcointypes.Deposit, hs *[]*bitcointypes.BlockHeader) bool {
			d.RelayerPubkey = nil
			return true
		}},
	}
}

func (b *bridgeHist) depositOutsFor(t *depTruth) []*wireTxOut {
	outs, _ := b.depositOutputs(t.Key, t.Evm, t.Version, t.Value, int(t.Vout))
	return outs
}

// c03Monitor checks the execution-layer side: each deposit credited once, value-exact.
func c03Monitor(b *bridgeHist) {
	c := b.lh.c
	b.onDeliver = func(st world.SysTx, blk *world.Block) {
		d, ok := st.Tx.(*goattypes.DepositTx)
		if !ok {
			return
		}
		c.Eval(1)
		key := fmt.Sprintf("%x/%d", d.Txid[:], d.TxOut)
		t := b.byID[key]
		if t == nil || !t.Credited {
			b.viol("execution layer was told to credit a deposit that no accepted message credited", key)
			return
		}
		t.ELSeen++
		if t.ELSeen > 1 {
			b.viol("deposit credited more than once on the execution layer", key)
		}
		sat := big.NewInt(10_000_000_000)
		amount, tax := new(big.Int).Div(d.Amount, sat), new(big.Int).Div(d.Tax, sat)
		if new(big.Int).Mod(d.Amount, sat).Sign() != 0 || new(big.Int).Mod(d.Tax, sat).Sign() != 0 {
			b.viol("credited amount is not a whole number of satoshi", fmt.Sprintf("%s amount %s tax %s", key, d.Amount, d.Tax))
		}
		wantTax := taxOf(t.Value, t.TaxRate, t.TaxCap)
		if new(big.Int).Add(amount, tax).Cmp(new(big.Int).SetUint64(t.Value)) != 0 {
			b.viol("credited amount plus tax differs from the output value", fmt.Sprintf("%s value %d amount %s tax %s", key, t.Value, amount, tax))
		}
		if tax.Cmp(new(big.Int).SetUint64(wantTax)) != 0 {
			b.viol("deposit tax differs from min(cap, floor(value/10000)*rate)", fmt.Sprintf("%s value %d rate %d cap %d: tax %s, expected %d", key, t.Value, t.TaxRate, t.TaxCap, tax, wantTax))
		}
		if tax.Cmp(new(big.Int).SetUint64(t.Value)) >= 0 {
			b.viol("deposit tax reaches the deposit value", fmt.Sprintf("%s value %d tax %s", key, t.Value, tax))
		}
		if string(d.Target[:]) != string(t.Evm) {
			b.viol("deposit credited to another EVM address", fmt.Sprintf("%s target %x, committed %x", key, d.Target[:], t.Evm))
		}
		c.Count("deposit_system_txs_checked", 1)
		if wantTax > 0 {
			c.Count("taxed_deposits_checked", 1)
		}
	}
}

// mineMalformedV1 mines version-1 style transactions whose data output is missing, misplaced or carries
// another magic prefix; they pay the relayer key hash but must never be credited.
func (b *bridgeHist) mineMalformedV1() {
	key := b.keys[0]
	for _, k := range b.keys {
		if sk, isSchnorr := k.Key.(*relayertypes.PublicKey_Schnorr); isSchnorr {
			// version-1 claims under a Schnorr key (the version exists for ECDSA keys only): key-hash outputs over what a
			// careless reading of the key could hash - nothing at all, the x-only key, the key with an even-Y prefix - each
			// followed by a proper data output
			evm := b.newEvm()
			data := append([]byte{0x6a, 0x18}, append(append([]byte{}, b.magic...), evm...)...)
			var txs []*wireMsgTx
			txs = append(txs, b.bc.CoinbaseTx(b.bc.Tip+1))
			for _, pre := range [][]byte{nil, sk.Schnorr, append([]byte{0x02}, sk.Schnorr...)} {
				txs = append(txs, b.bc.FillerTx(wireOut(50_000, append([]byte{0x00, 0x14}, btcutil.Hash160(pre)...)), wireOut(0, data)))
			}
			blk := b.bc.Mine(txs)
			for i := 1; i < len(txs); i++ {
				b.malformed = append(b.malformed, &depTruth{Block: blk, Index: i, Raw: blk.Raw[i], Txid: blk.Txids[i], Vout: 0, Value: 50_000, Version: 1, Key: k, Evm: evm, Malformed: true, Layout: 300 + i})
			}
			b.lh.c.Count("version_1_claims_under_a_schnorr_key_mined", len(txs)-1)
			break
		}
	}
	if _, isSchnorr := key.Key.(*relayertypes.PublicKey_Schnorr); isSchnorr {
		return
	}
	r := b.lh.r
	evm := b.newEvm()
	sc := expectedDepositScripts(key, evm, b.magic, 1)
	other := expectedDepositScripts(key, evm, []byte("XXX0"), 1)
	filler := world.P2WPKHScript(world.Derive(3, "fill", r.Intn(100))[:20])
	layouts := [][]*wireTxOut{
		{wireOut(50_000, sc[0])}, // data output missing
		{wireOut(50_000, sc[0]), wireOut(700, filler), wireOut(0, sc[1])},              // data output third
		{wireOut(0, sc[1]), wireOut(50_000, sc[0])},                                    // data output first
		{wireOut(50_000, sc[0]), wireOut(0, other[1])},                                 // another magic
		{wireOut(50_000, sc[0]), wireOut(0, sc[1][:len(sc[1])-1])},                     // data one byte short
		{wireOut(700, filler), wireOut(0, sc[1]), wireOut(50_000, sc[0])},              // key-hash output after the data output, claimed as output 2
		{wireOut(50_000, sc[0]), wireOut(0, append([]byte{0x6a, 0x4c}, sc[1][2:]...))}, // another push opcode in front of the same data
	}
	var txs []*wireMsgTx
	txs = append(txs, b.bc.CoinbaseTx(b.bc.Tip+1))
	idxs := []int{}
	for _, l := range layouts {
		idxs = append(idxs, len(txs))
		txs = append(txs, b.bc.FillerTx(l...))
	}
	blk := b.bc.Mine(txs)
	for k, i := range idxs {
		vout := uint32(0)
		if k == 2 {
			vout = 1
		}
		if k == 5 {
			vout = 2
		}
		d := &depTruth{Block: blk, Index: i, Raw: blk.Raw[i], Txid: blk.Txids[i], Vout: vout, Value: 50_000, Version: 1, Key: key, Evm: evm, Malformed: true, Layout: k}
		b.malformed = append(b.malformed, d)
	}
}

// mineLookalikeV0 mines outputs that are near misses of the version-0 deposit script of (key, EVM address): the same
// witness program under another witness version, one program bit flipped, a program one byte short. Claimed as
// version-0 deposits of that key and address they must never be credited.
func (b *bridgeHist) mineLookalikeV0() {
	r := b.lh.r
	key := b.keys[r.Intn(len(b.keys))]
	evm := b.newEvm()
	sc := expectedDepositScripts(key, evm, b.magic, 0)
	if sc == nil || len(sc[0]) < 34 {
		return
	}
	s := sc[0]
	mut := func(f func(m []byte) []byte) []byte { return f(append([]byte(nil), s...)) }
	layouts := [][]byte{
		mut(func(m []byte) []byte { // the other of the two witness versions in use
			if m[0] == 0x00 {
				m[0] = 0x51
			} else {
				m[0] = 0x00
			}
			return m
		}),
		mut(func(m []byte) []byte { m[0] = 0x52; return m }),                             // a future witness version
		mut(func(m []byte) []byte { m[2+r.Intn(32)] ^= 1 << uint(r.Intn(8)); return m }), // one program bit
		mut(func(m []byte) []byte { m[1] = 0x1f; return m[:33] }),                        // program one byte short
	}
	var txs []*wireMsgTx
	txs = append(txs, b.bc.CoinbaseTx(b.bc.Tip+1))
	idxs := []int{}
	for _, l := range layouts {
		idxs = append(idxs, len(txs))
		txs = append(txs, b.bc.FillerTx(wireOut(50_000, l)))
	}
	blk := b.bc.Mine(txs)
	for k, i := range idxs {
		d := &depTruth{Block: blk, Index: i, Raw: blk.Raw[i], Txid: blk.Txids[i], Vout: 0, Value: 50_000, Version: 0, Key: key, Evm: evm, Malformed: true, Layout: 100 + k}
		b.malformed = append(b.malformed, d)
	}
}

// mineForUnregisteredKey mines perfectly formed deposits (both versions) that pay a key the relayer group never
// registered: nothing but the registration check stands between them and a credit.
func (b *bridgeHist) mineForUnregisteredKey() {
	r := b.lh.r
	var txs []*wireMsgTx
	txs = append(txs, b.bc.CoinbaseTx(b.bc.Tip+1))
	type pend struct {
		idx int
		d   *depTruth
	}
	var pends []pend
	for k := 0; k < 3; k++ {
		schn := k == 2
		key := world.BtcPubKey(world.Derive(b.lh.c.Seed, "never-registered", len(b.malformed)*10+k), schn)
		version := uint32(k % 2)
		if schn {
			version = 0
		}
		evm := b.newEvm()
		outs, vout := b.depositOutputs(key, evm, version, 60_000, r.Intn(2))
		if outs == nil {
			continue
		}
		pends = append(pends, pend{len(txs), &depTruth{Vout: vout, Value: 60_000, Version: version, Key: key, Evm: evm, Malformed: true, Layout: 200 + k}})
		txs = append(txs, b.bc.FillerTx(outs...))
	}
	blk := b.bc.Mine(txs)
	for _, p := range pends {
		p.d.Block, p.d.Index, p.d.Raw, p.d.Txid = blk, p.idx, blk.Raw[p.idx], blk.Txids[p.idx]
		b.malformed = append(b.malformed, p.d)
	}
}

// c03Gen queues one block's worth of Bitcoin activity, votes and deposit submissions.
func c03Gen(b *bridgeHist, blk int, muts []depMutator) {
	lh := b.lh
	r := lh.r
	// execution-layer side: parameter changes now and then
	if r.Intn(7) == 0 {
		rate := []uint64{0, 1, 5, 30, 9999}[r.Intn(5)]
		cap := []uint64{0, 1, 50, 1000, 100_000_000}[r.Intn(5)]
		b.bridgeReq.DepositTax = append(b.bridgeReq.DepositTax, &goattypes.DepositTaxRequest{Rate: rate, Max: cap})
		lh.logf("EL: tax rate %d cap %d", rate, cap)
	}
	if r.Intn(15) == 0 {
		m := []uint64{1001, 5000, 10_000, 50_000}[r.Intn(4)]
		b.bridgeReq.MinDeposit = append(b.bridgeReq.MinDeposit, &goattypes.MinDepositRequest{Satoshi: m})
		lh.logf("EL: min deposit %d", m)
	}
	// Bitcoin side
	switch {
	case blk%9 == 7 && len(b.malformed) < 30:
		switch (blk / 9) % 3 {
		case 0:
			b.mineMalformedV1()
		case 1:
			b.mineLookalikeV0()
		default:
			b.mineForUnregisteredKey()
		}
	case blk%9 == 4:
		if b.depositBurst && r.Intn(2) == 0 {
			b.mineDeposits(9+r.Intn(7), false)
		} else {
			if r.Intn(5) == 0 {
				b.mineDeposits(0, true) // a block whose only transaction is a coinbase deposit: empty inclusion path
			} else {
				b.mineDeposits(1+r.Intn(5), r.Intn(3) == 0)
			}
		}
	case blk%3 == 0 && b.bc.Tip < 125:
		b.bc.MineEmpty(16)
	}
	// one voted message per block: mostly block hashes, sometimes a new key, sometimes a hostile batch
	switch {
	case r.Intn(12) == 0 && len(b.keys) < 4:
		if op := b.pubkeyOp(); op != nil {
			b.ops = append(b.ops, op)
		}
	case r.Intn(6) == 0:
		if op := b.hashesOp([]string{"start-at-tip", "start-after-gap", "rewrite-old", "seventeen", "empty"}[r.Intn(5)]); op != nil {
			b.ops = append(b.ops, op)
		}
	default:
		if op := b.hashesOp("next"); op != nil {
			b.ops = append(b.ops, op)
		}
	}
	// deposit submissions
	var fresh, done, unvoted []*depTruth
	for _, d := range b.deps {
		switch {
		case d.Block.Height > b.votedTip:
			unvoted = append(unvoted, d)
		case d.Credited:
			done = append(done, d)
		default:
			fresh = append(fresh, d)
		}
	}
	nops := r.Intn(5)
	for k := 0; k < nops; k++ {
		switch x := r.Intn(10); {
		case x < 3 && len(fresh) > 0: // genuine batch
			n := 1 + r.Intn(min(len(fresh), 6))
			if b.depositBurst {
				n = min(len(fresh), 16)
			}
			items := fresh[:n]
			fresh = fresh[n:]
			var ds []*bitcointypes.Deposit
			all := true
			for _, t := range items {
				ds = append(ds, b.genuineDeposit(t))
				t.Attempts++
				if t.Index == 0 && b.votedTip < t.Block.Height+100 {
					all = false // immature coinbase in the batch: a legitimate refusal
				}
				if t.Value < b.params().MinDepositAmount {
					all = false
				}
			}
			b.ops = append(b.ops, b.depositsOp(ds, hdrsFor(items), "genuine", all))
		case x < 7 && len(fresh)+len(done) > 0: // one mutated item
			pool := append(append([]*depTruth{}, fresh...), done...)
			t := pool[r.Intn(len(pool))]
			// every mutator in turn (the starting point differs per history), so that a run of any size uses them all
			m := muts[b.mutNext%len(muts)]
			b.mutNext++
			d := b.genuineDeposit(t)
			hs := hdrsFor([]*depTruth{t})
			if !m.f(b, t, d, &hs) {
				continue
			}
			b.ops = append(b.ops, b.depositsOp([]*bitcointypes.Deposit{d}, hs, m.name, false))
		case x == 7 && len(done) > 0: // replay of a credited deposit
			t := done[r.Intn(len(done))]
			b.ops = append(b.ops, b.depositsOp([]*bitcointypes.Deposit{b.genuineDeposit(t)}, hdrsFor([]*depTruth{t}), "replay-credited", false))
		case x == 8 && len(fresh) > 0 && r.Intn(2) == 0: // seventeen items: one more than a batch may carry
			t := fresh[0]
			var items []*bitcointypes.Deposit
			for len(items) < 17 {
				items = append(items, b.genuineDeposit(t))
			}
			b.ops = append(b.ops, b.depositsOp(items, hdrsFor([]*depTruth{t}), "seventeen-items", false))
		case x == 8 && len(fresh) > 0: // duplicate inside one batch
			t := fresh[0]
			b.ops = append(b.ops, b.depositsOp([]*bitcointypes.Deposit{b.genuineDeposit(t), b.genuineDeposit(t)}, hdrsFor([]*depTruth{t}), "duplicate-in-batch", false))
		case x == 9 && len(unvoted) > 0: // block not voted yet
			t := unvoted[r.Intn(len(unvoted))]
			b.ops = append(b.ops, b.depositsOp([]*bitcointypes.Deposit{b.genuineDeposit(t)}, hdrsFor([]*depTruth{t}), "block-not-voted", false))
		}
	}
	// version-1 look-alikes with a missing / misplaced / foreign data output
	for _, t := range b.malformed {
		if t.Block.Height <= b.votedTip && t.Attempts < 2 && r.Intn(3) == 0 {
			t.Attempts++
			b.ops = append(b.ops, b.depositsOp([]*bitcointypes.Deposit{b.genuineDeposit(t)}, hdrsFor([]*depTruth{t}), fmt.Sprintf("lookalike-layout-%d", t.Layout), false))
		}
	}
	// coinbase deposits: under position 0 and under aliased positions, before and after maturity
	for _, t := range b.deps {
		if t.Index == 0 && !t.Credited && t.Block.Height <= b.votedTip && r.Intn(4) == 0 {
			d := b.genuineDeposit(t)
			name := "coinbase-position-0"
			if r.Intn(2) == 0 {
				d.TxIndex = uint32(1+r.Intn(3)) << uint(t.Block.Tree.Depth())
				name = "coinbase-aliased-position"
			}
			mature := b.votedTip >= t.Block.Height+100
			b.ops = append(b.ops, b.depositsOp([]*bitcointypes.Deposit{d}, hdrsFor([]*depTruth{t}), fmt.Sprintf("%s-mature=%v", name, mature), false))
		}
	}
}

func c03History(c *vc.Ctx, idx int) {
	cfg := lockCfg{Label: "c03", NVals: 1, Blocks: c.Pick(60, 170), Protect0: true, NRelayers: 1 + idx%3, W: lockWeights{}}
	lh, err := newLockHistSchnorr(c, cfg, idx, idx%2 == 1)
	if err != nil {
		c.Inconclusive("setup: %v", err)
		return
	}
	defer lh.close()
	lh.crashFn = func(cr *world.ErrCrash) {
		c.Violation("block processing failed during a deposit history", cr.Error(), lh.replay())
	}
	b := newBridgeHist(lh)
	c03Monitor(b)
	muts := c03Mutators()
	r := lh.r
	// a coinbase deposit early, so that it is immature first and mature later
	b.mineDeposits(2, true)
	b.mineDeposits(3, false)
	restartAt := cfg.Blocks/2 + r.Intn(5)
	if !lh.step() { // the application answers queries only after the first block
		return
	}
	for blk := 0; blk < cfg.Blocks && !lh.failed; blk++ {
		if !b.refreshGroup() {
			return
		}
		c03Gen(b, blk, muts)
		if blk == restartAt {
			nn, err := lh.ch.Nodes[0].Restart()
			if err != nil {
				c.Inconclusive("restart: %v", err)
				return
			}
			lh.ch.Nodes[0] = nn
			lh.logf("node restarted")
			c.Count("restarts", 1)
		}
		if !b.runBlock() {
			return
		}
	}
	if lh.failed {
		return
	}
	// HasDeposited must agree with the ground truth of credits
	for _, t := range b.deps {
		var resp bitcointypes.QueryHasDepositedResponse
		txid := append([]byte(nil), t.Txid...)
		for i, j := 0, len(txid)-1; i < j; i, j = i+1, j-1 {
			txid[i], txid[j] = txid[j], txid[i]
		}
		if err := lh.ch.Node().Query("/goat.bitcoin.v1.Query/HasDeposited", &bitcointypes.QueryHasDeposited{Txid: fmt.Sprintf("%x", txid), Txout: t.Vout}, &resp); err != nil {
			c.Inconclusive("HasDeposited: %v", err)
			continue
		}
		c.Eval(1)
		if resp.Yes != t.Credited {
			b.viol("Query/HasDeposited disagrees with the accepted deposit messages", fmt.Sprintf("%s: query %v, credited by an accepted message %v", t.id(), resp.Yes, t.Credited))
		}
	}
	nc := 0
	for _, t := range b.deps {
		if t.Credited {
			nc++
		}
	}
	if nc == 0 {
		c.Count("histories_without_a_credited_deposit", 1) // judged over the whole run (checkconf.json: require_observed)
	}
	if os.Getenv("VERIF_DEBUG") != "" {
		for _, l := range lh.opsLog {
			if strings.Contains(l, "malformed") || strings.Contains(l, "failed") {
				fmt.Fprintln(os.Stderr, "DEBUG", l)
			}
		}
	}
	c.Sample(map[string]any{"bitcoin_blocks": b.bc.Tip, "voted_tip": b.votedTip, "deposit_outputs_mined": len(b.deps), "credited": nc, "registered_keys": len(b.keys), "last_ops": lastN(lh.opsLog, 4)})
}

func init() {
	vc.Register(&vc.Check{
		ID: "C03", Title: "Deposits: SPV-proven, script-bound, matured, credited at most once, value-exact", Level: "exploration",
		Rule: "one case = one history (60/170 blocks) over a synthetic Bitcoin chain (>=125 blocks voted 16 at a time; blocks with 1..5 deposit outputs of both versions and both key types at random positions incl. the coinbase, values at the minimum +-1, 10000/10001, the tax cap edge, 2^40, 2^62) with relayer groups of 1..3, new relayer keys, tax/minimum changes from the execution layer, a node restart mid-way; " +
			"deposit batches: genuine ones and single items under 20 mutations (header of another height / changed / forged merkle root / wrong length / missing, proof truncated / extended / bit-flipped, position +1 / aliased by k*2^depth, other output, EVM address, key, version, changed / unmined / undersized tx, nil key), replays of credited deposits, duplicates inside a batch, unvoted blocks, coinbase deposits under position 0 and aliased positions before and after 100 voted blocks; " +
			"oracle from the generator's ground truth on every accepted batch, plus value/tax/target/at-most-once checks on the deposit system txs the execution layer receives and Query/HasDeposited at the end. Non-trivial = every judged batch; distinct = (kind, size, verdict).",
		Assume: []string{"the claimed position itself is not judged here (C04)", "values < 2^63"},
		Cases:  func(tier string) int { return map[string]int{"quick": 48, "thorough": 200}[tier] },
		Run:    func(c *vc.Ctx, i int) { c03History(c, i) },
	})
}
