package checks

import (
	"bytes"
	"crypto/sha256"
	"fmt"
	"time"

	"github.com/btcsuite/btcd/wire"
	"github.com/ethereum/go-ethereum/common"
	"github.com/ethereum/go-ethereum/core/types/goattypes"
	bitcointypes "github.com/goatnetwork/goat/x/bitcoin/types"
	relayertypes "github.com/goatnetwork/goat/x/relayer/types"

	"verif/harness/vc"
	"verif/harness/world"
)

// banked is one vote ever produced, with the context it was signed for.
type banked struct {
	id       int
	msg      voteMsg
	kind     string
	ctx      world.VoteCtx
	accepted bool
	validPay bool // the payload was valid for the bridge state when it was generated
}

type c02Item struct {
	desc   string
	msg    sdkMsg
	bank   *banked // nil for non-voted messages
	expect int     // control / mustFail / mayPass
	class  string
	onOK   func()
}

func cloneVoteMsg(m voteMsg) voteMsg {
	switch t := m.(type) {
	case *bitcointypes.MsgNewBlockHashes:
		c := *t
		return &c
	case *bitcointypes.MsgNewPubkey:
		c := *t
		return &c
	case *bitcointypes.MsgProcessWithdrawal:
		c := *t
		return &c
	case *bitcointypes.MsgReplaceWithdrawal:
		c := *t
		return &c
	case *bitcointypes.MsgNewConsolidation:
		c := *t
		return &c
	}
	return m
}

func c02History(c *vc.Ctx, idx int) {
	r := world.NewRand(c.Seed, "c02", idx)
	n := 1 + idx%5 // group size 1..5 members in all
	period := 10 * time.Minute
	if idx%2 == 1 {
		period = 12 * time.Second
	}
	w, err := world.New(world.Config{Seed: c.Seed, Label: fmt.Sprintf("c02-%d", idx), NRelayers: n,
		Relayer: func(g *relayertypes.GenesisState) {
			g.Params.ElectingPeriod = period
			g.Params.AcceptProposerTimeout = 9 * time.Second
		}})
	if err != nil {
		c.Inconclusive("world: %v", err)
		return
	}
	ch, err := world.NewChain(w)
	if err != nil {
		c.Inconclusive("chain: %v", err)
		w.Cleanup()
		return
	}
	defer ch.Close()
	bm := newBridgeModel(c.Seed, w.BtcKey)
	var opsLog []string
	logf := func(f string, a ...any) {
		opsLog = append(opsLog, fmt.Sprintf("h=%d ", ch.Height+1)+fmt.Sprintf(f, a...))
	}
	viol := func(sig, detail string) {
		c.Violation(sig, fmt.Sprintf("height %d: %s", ch.Height, detail), map[string]any{"history": idx, "ops": lastN(opsLog, 60)})
	}
	if _, err := ch.Step(world.StepOpts{Reqs: &world.Requests{Bridge: bridgeReqs(bm.withdrawRequests(30))}}); err != nil {
		c.Inconclusive("setup block: %v", err)
		return
	}
	var bank []*banked
	randao := make([]byte, 32)
	seq := uint64(0)
	replayAttempts, postSigFailures := 0, 0
	removed := 0
	blocks := c.Pick(36, 110)
	for blk := 0; blk < blocks; blk++ {
		g, err := ch.Group()
		if err != nil {
			c.Inconclusive("group: %v", err)
			return
		}
		if g.Seq != seq {
			viol("proposal sequence moved without an accepted voted proposal", fmt.Sprintf("chain %d, accepted proposals imply %d", g.Seq, seq))
			seq = g.Seq
		}
		ctx := world.VoteCtx{ChainID: w.Cfg.ChainID, Proposer: g.Proposer.AddrStr, Seq: seq, Epoch: g.Epoch}
		pre, err := ch.Node().Snapshot()
		if err != nil {
			c.Inconclusive("snapshot: %v", err)
			return
		}
		var items []c02Item
		expSeq := seq
		fresh := func(kind string, salt int) *banked {
			msg, ok := bm.payload(kind, g.Proposer.AddrStr, salt)
			if !ok {
				msg, _ = bm.payload("consolidation", g.Proposer.AddrStr, salt)
				kind = "consolidation"
			}
			cx := ctx
			cx.Seq = expSeq
			g2 := *g
			g2.Seq = expSeq
			v, err := ch.QuorumVote(&g2, msg)
			if err != nil {
				return nil
			}
			setVote(msg, v)
			bk := &banked{id: len(bank), msg: msg, kind: kind, ctx: cx, validPay: true}
			bank = append(bank, bk)
			return bk
		}
		onlyFailures := blk%6 == 5 // a block in which nothing may be accepted: state must be untouched
		nOps := 1 + r.Intn(5)
		hashesUsed := false
		for k := 0; k < nOps; k++ {
			x := r.Intn(10)
			if onlyFailures && x < 3 {
				x = 3 + r.Intn(6)
			}
			switch {
			case x < 3: // genuine fresh vote
				kind := voteKinds[r.Intn(len(voteKinds))]
				if kind == "hashes" && hashesUsed { // a second batch would start at the same height
					kind = "consolidation"
				}
				if kind == "process" || kind == "replace" {
					kind = []string{"pubkey", "consolidation"}[r.Intn(2)] // keep payload state simple inside one block
					if blk%4 == 0 && k == 0 {
						kind = "process"
					}
				}
				bk := fresh(kind, r.Intn(1000))
				if bk == nil {
					continue
				}
				if bk.kind == "hashes" {
					hashesUsed = true
				}
				mm := bk.msg
				items = append(items, c02Item{desc: fmt.Sprintf("fresh %s vote#%d seq=%d", bk.kind, bk.id, bk.ctx.Seq), msg: mm, bank: bk, expect: control, class: "fresh", onOK: func() { bm.accepted(mm) }})
				expSeq++
			case x < 5 && len(bank) > 0: // replay of a banked vote, unchanged
				bk := bank[r.Intn(len(bank))]
				exp := mustFail
				if !bk.accepted && bk.ctx == (world.VoteCtx{ChainID: w.Cfg.ChainID, Proposer: g.Proposer.AddrStr, Seq: expSeq, Epoch: g.Epoch}) {
					exp = mayPass
				}
				replayAttempts++
				if bk.ctx.Proposer != g.Proposer.AddrStr {
					// the message names a former proposer as its signer: it cannot even enter a block; the
					// mempool door must refuse it whoever signs the envelope
					num, aseq, _ := ch.Account(g.Proposer.Addr)
					raw, err := w.SignTx(world.TxSpec{Msgs: []sdkMsg{bk.msg}, Priv: g.Proposer.Tx, AccNum: num, Seq: aseq})
					if err == nil {
						res, err := ch.CheckTx(0, raw, false)
						c.Eval(1)
						if err == nil && res.Code == 0 {
							viol("a vote naming a former proposer was admitted to the mempool", fmt.Sprintf("vote#%d signed for proposer %s", bk.id, bk.ctx.Proposer))
						}
						c.Count("replays_of_former_proposers_refused_at_the_door", 1)
					}
					continue
				}
				if r.Intn(2) == 0 && exp == mustFail {
					// the sequence and epoch fields travel outside the signature: an attacker rewrites them to the current values
					mm := cloneVoteMsg(bk.msg)
					v := *bk.msg.GetVote()
					v.Sequence, v.Epoch = expSeq, g.Epoch
					setVote(mm, &v)
					items = append(items, c02Item{desc: fmt.Sprintf("replay of vote#%d (%s, signed for seq=%d epoch=%d) with the sequence/epoch fields rewritten to %d/%d", bk.id, bk.kind, bk.ctx.Seq, bk.ctx.Epoch, expSeq, g.Epoch), msg: mm, bank: bk, expect: exp, class: "replay-refielded"})
					continue
				}
				items = append(items, c02Item{desc: fmt.Sprintf("replay of vote#%d (%s, signed for seq=%d epoch=%d, accepted before=%v)", bk.id, bk.kind, bk.ctx.Seq, bk.ctx.Epoch, bk.accepted), msg: bk.msg, bank: bk, expect: exp, class: "replay"})
			case x < 7 && len(bank) > 0: // a banked vote moved to another payload / action
				bk := bank[r.Intn(len(bank))]
				kind := voteKinds[r.Intn(len(voteKinds))]
				msg, ok := bm.payload(kind, g.Proposer.AddrStr, r.Intn(1000)+5000)
				if !ok {
					continue
				}
				setVote(msg, bk.msg.GetVote())
				replayAttempts++
				items = append(items, c02Item{desc: fmt.Sprintf("vote#%d (%s) moved to a fresh %s payload", bk.id, bk.kind, kind), msg: msg, expect: mustFail, class: "moved"})
			case x < 9: // fails after the signature check: nothing may move
				var msg voteMsg
				switch r.Intn(8) {
				case 6, 7: // a fee bump of the last processed batch that pays a wrong script / whose change goes to a foreign key
					if bm.lastPid >= 0 {
						wid := bm.wdOfPid[uint64(bm.lastPid)]
						_, script := wdReq(bm.seed, wid, 0, 0)
						outs := []*wire.TxOut{wire.NewTxOut(int64(bm.wdAmount-5000), append([]byte{0, 20}, make([]byte, 20)...))}
						if r.Intn(2) == 0 {
							outs = []*wire.TxOut{wire.NewTxOut(int64(bm.wdAmount-5000), script), wire.NewTxOut(1000, world.SystemScript(world.BtcPubKey(world.Derive(8, "f", 2), false)))}
						}
						tx := bm.bc.FillerTx(outs...)
						msg = &bitcointypes.MsgReplaceWithdrawal{Proposer: g.Proposer.AddrStr, Pid: uint64(bm.lastPid), NewNoWitnessTx: world.NoWitness(tx), NewTxFee: max(bm.lastFee, bm.maxFee) + 7}
						c.Count("fee_bumps_that_fail_after_the_signature_check", 1)
					}
				case 4: // a consolidation with two outputs
					tx := bm.bc.FillerTx(wire.NewTxOut(int64(40_000+blk), world.SystemScript(bm.relKey)), wire.NewTxOut(1000, world.SystemScript(bm.relKey)))
					msg = &bitcointypes.MsgNewConsolidation{Proposer: g.Proposer.AddrStr, NoWitnessTx: world.NoWitness(tx)}
				case 5: // a consolidation paying a foreign key
					tx := bm.bc.FillerTx(wire.NewTxOut(int64(40_000+blk), world.SystemScript(world.BtcPubKey(world.Derive(8, "f", 1), false))))
					msg = &bitcointypes.MsgNewConsolidation{Proposer: g.Proposer.AddrStr, NoWitnessTx: world.NoWitness(tx)}
				case 0: // a key that already exists
					msg = &bitcointypes.MsgNewPubkey{Proposer: g.Proposer.AddrStr, Pubkey: bm.relKey}
				case 1: // withdrawal paid to a wrong script
					if bm.nextWd < bm.maxWd {
						tx := bm.bc.FillerTx(wire.NewTxOut(50_000, append([]byte{0, 20}, make([]byte, 20)...)))
						msg = &bitcointypes.MsgProcessWithdrawal{Proposer: g.Proposer.AddrStr, Id: []uint64{bm.nextWd}, NoWitnessTx: world.NoWitness(tx), TxFee: 500}
					}
				case 2: // fee rate far above the user's maximum
					if bm.nextWd < bm.maxWd {
						_, script := wdReq(bm.seed, bm.nextWd, 0, 0)
						tx := bm.bc.FillerTx(wire.NewTxOut(int64(bm.wdAmount-5000), script))
						msg = &bitcointypes.MsgProcessWithdrawal{Proposer: g.Proposer.AddrStr, Id: []uint64{bm.nextWd}, NoWitnessTx: world.NoWitness(tx), TxFee: 10_000_000}
					}
				case 3: // change to a foreign key
					if bm.nextWd < bm.maxWd {
						_, script := wdReq(bm.seed, bm.nextWd, 0, 0)
						tx := bm.bc.FillerTx(wire.NewTxOut(int64(bm.wdAmount-5000), script), wire.NewTxOut(1000, world.SystemScript(world.BtcPubKey(world.Derive(8, "f", 0), false))))
						msg = &bitcointypes.MsgProcessWithdrawal{Proposer: g.Proposer.AddrStr, Id: []uint64{bm.nextWd}, NoWitnessTx: world.NoWitness(tx), TxFee: 500}
					}
				}
				if msg == nil {
					continue
				}
				g2 := *g
				g2.Seq = expSeq
				v, err := ch.QuorumVote(&g2, msg)
				if err != nil {
					continue
				}
				setVote(msg, v)
				cx := ctx
				cx.Seq = expSeq
				bk := &banked{id: len(bank), msg: msg, kind: "post-signature-failure", ctx: cx}
				bank = append(bank, bk)
				postSigFailures++
				items = append(items, c02Item{desc: fmt.Sprintf("valid quorum on a payload that fails after the signature check (vote#%d)", bk.id), msg: msg, bank: bk, expect: mustFail, class: "post-signature-failure"})
			default: // non-voted messages
				if r.Intn(2) == 0 {
					items = append(items, c02Item{desc: "accept-proposer with a wrong epoch", msg: &relayertypes.MsgAcceptProposerRequest{Proposer: g.Proposer.AddrStr, Epoch: g.Epoch + 1}, expect: mustFail, class: "non-voted"})
				} else {
					dep := &bitcointypes.MsgNewDeposits{Proposer: g.Proposer.AddrStr, BlockHeaders: []*bitcointypes.BlockHeader{{Height: 1, Raw: make([]byte, 80)}},
						Deposits: []*bitcointypes.Deposit{{Version: 0, BlockNumber: 1, TxIndex: 1, NoWitnessTx: make([]byte, 100), EvmAddress: make([]byte, 20), RelayerPubkey: w.BtcKey}}}
					items = append(items, c02Item{desc: "malformed deposits", msg: dep, expect: mustFail, class: "non-voted"})
				}
			}
		}
		if len(items) > 14 {
			items = items[:14]
		}
		num, aseq, ok := ch.Account(g.Proposer.Addr)
		if !ok {
			c.Inconclusive("no proposer account")
			return
		}
		for i, it := range items {
			raw, err := w.SignTx(world.TxSpec{Msgs: []sdkMsg{it.msg}, Priv: g.Proposer.Tx, AccNum: num, Seq: aseq + uint64(i)})
			if err != nil {
				c.Inconclusive("sign: %v", err)
				return
			}
			ch.Inject(raw)
			logf("tx %d: %s", i, it.desc)
		}
		// membership changes (a voter, then the sitting proposer) now and then (the threshold and the key set change with them)
		var reqs *world.Requests
		if blk%9 == 4 && len(g.Voters) > 1 && removed < 2 && g.Voters[len(g.Voters)-1] != nil {
			target := g.Voters[len(g.Voters)-1]
			if removed == 1 {
				target = g.Proposer // the sitting proposer leaves: at the next election its role passes on without an election
				c.Count("removals_of_the_sitting_proposer", 1)
			}
			reqs = &world.Requests{Relayer: goattypes.RelayerRequests{Removes: []*goattypes.RemoveVoterRequest{{Voter: common.BytesToAddress(target.Addr)}}}}
			removed++
			logf("EL: remove member %s", target.AddrStr)
		}
		b, err := ch.Step(world.StepOpts{Reqs: reqs})
		if err != nil {
			viol("block processing failed during a vote-replay history", err.Error())
			return
		}
		if len(b.Resp.TxResults) != len(items)+1 {
			c.Inconclusive("result count")
			return
		}
		// the oracle walks the block in order, tracking the sequence a vote must have been signed for
		cur := seq
		accepted := 0
		for i, it := range items {
			res := b.Resp.TxResults[i+1]
			c.Eval(1)
			c.Nontrivial("class=%s group=%d expect=%d accepted=%v", it.class, n, it.expect, res.Code == 0)
			voted := it.bank != nil || it.class == "moved"
			if res.Code != 0 {
				logf("  tx %d failed: %s", i, failClass(res.Log))
				if it.expect == control {
					c.Count("fresh_votes_rejected", 1)
				} else {
					c.Count("rejected_"+it.class, 1)
				}
				continue
			}
			if !voted {
				if it.expect == mustFail {
					viol("a message that must fail was accepted", it.desc)
				}
				continue
			}
			accepted++
			c.Count("voted_proposals_accepted", 1)
			// an accepted vote must have been signed for exactly the current context and never accepted before
			legit := it.bank != nil && !it.bank.accepted && it.bank.ctx == (world.VoteCtx{ChainID: w.Cfg.ChainID, Proposer: g.Proposer.AddrStr, Seq: cur, Epoch: g.Epoch}) &&
				bytes.Equal(it.bank.msg.VoteSigDoc(), it.msg.(voteMsg).VoteSigDoc()) && it.class != "post-signature-failure"
			if !legit {
				why := "outside the context it was signed for"
				if it.bank != nil && it.bank.accepted {
					why = "a second time"
				}
				if it.class == "post-signature-failure" {
					why = "although its payload violates the bridge rules"
				}
				viol("a vote was accepted "+why, fmt.Sprintf("%s; current sequence %d epoch %d proposer %s", it.desc, cur, g.Epoch, g.Proposer.AddrStr))
			}
			if it.bank != nil {
				it.bank.accepted = true
			}
			if it.onOK != nil && it.class == "fresh" {
				it.onOK()
			} else if it.bank != nil && (it.class == "replay" || it.class == "replay-refielded") {
				bm.accepted(it.bank.msg)
			}
			cur++
			h := sha256.New()
			h.Write(randao)
			h.Write(it.msg.(voteMsg).GetVote().Signature)
			randao = h.Sum(nil)
		}
		seq = cur
		post, err := ch.Node().Snapshot()
		if err != nil {
			c.Inconclusive("snapshot: %v", err)
			return
		}
		if post.Relayer.Sequence != seq {
			viol("sequence did not advance by exactly one per accepted voted proposal", fmt.Sprintf("chain %d, accepted proposals imply %d (%d accepted in this block)", post.Relayer.Sequence, seq, accepted))
			seq = post.Relayer.Sequence
		}
		if !bytes.Equal(post.Relayer.Randao, randao) {
			viol("randomness accumulator differs from the fold over the accepted votes", fmt.Sprintf("chain %x, expected %x", post.Relayer.Randao, randao))
			randao = post.Relayer.Randao
		}
		if accepted == 0 {
			c.Count("blocks_without_accepted_proposal", 1)
			// bridge state: nothing but the hand-over queue may differ, and that only by pops at its head
			if a, bb := bridgeCore(pre), bridgeCore(post); a != bb {
				viol("rejected or failed proposals changed bridge state", fmt.Sprintf("bitcoin state (hand-over queue aside) %s -> %s with txs %v", a, bb, lastN(opsLog, len(items))))
			}
			if len(post.Bitcoin.EthTxQueue.Deposits) > len(pre.Bitcoin.EthTxQueue.Deposits) || len(post.Bitcoin.EthTxQueue.PaidWithdrawals) > len(pre.Bitcoin.EthTxQueue.PaidWithdrawals) ||
				len(post.Bitcoin.EthTxQueue.RejectedWithdrawals) > len(pre.Bitcoin.EthTxQueue.RejectedWithdrawals) {
				viol("rejected or failed proposals added to the hand-over queue", fmt.Sprintf("%+v -> %+v", pre.Bitcoin.EthTxQueue, post.Bitcoin.EthTxQueue))
			}
			// the proposer-accepted flag: only the election at the end of the block may have changed it
			if pre.Relayer.Relayer.Epoch == post.Relayer.Relayer.Epoch && pre.Relayer.Relayer.ProposerAccepted != post.Relayer.Relayer.ProposerAccepted {
				viol("a failed proposal changed the proposer-accepted flag", fmt.Sprintf("%v -> %v", pre.Relayer.Relayer.ProposerAccepted, post.Relayer.Relayer.ProposerAccepted))
			}
			if !pre.Relayer.Relayer.ProposerAccepted {
				c.Count("failure_blocks_with_unaccepted_proposer", 1)
			}
		}
		if post.Relayer.Relayer.Epoch != pre.Relayer.Relayer.Epoch {
			c.Count("elections", 1)
		}
	}
	if replayAttempts == 0 || postSigFailures == 0 {
		c.Count("histories_without_replays_or_post_signature_failures", 1) // judged over the whole run (checkconf.json: require_observed)
	}
	c.Sample(map[string]any{"group_members": n, "votes_banked": len(bank), "final_sequence": seq, "replay_attempts": replayAttempts, "post_signature_failures": postSigFailures, "last_ops": lastN(opsLog, 5)})
}

func init() {
	vc.Register(&vc.Check{
		ID: "C02", Title: "A vote is single-use: sequence advances exactly once per accepted proposal", Level: "exploration",
		Rule: "one case = one history (36/110 blocks, relayer groups of 1..5, elections every 12 s in odd histories, voter removals) in which every block carries up to 14 relayer messages: fresh genuine votes (several per block, each signed for the sequence it will meet), replays of any vote ever produced (accepted or not) re-wrapped in correctly signed transactions, unchanged or with the sequence/epoch fields rewritten to the current values, banked votes moved to a fresh payload or another action, valid quorums on payloads that fail after the signature check (existing key, wrong script, fee far above the maximum, change to a foreign key), and non-voted messages; every sixth block contains failures only. " +
			"Oracle: an accepted vote must have been signed for exactly the current chain/proposer/sequence/epoch, for that payload, and never accepted before; after every block sequence = previous + number accepted, randao = SHA256 fold over exactly the accepted signatures; blocks without an acceptance leave the bitcoin store hash and (absent an election) the proposer-accepted flag unchanged. Non-trivial = every judged message; distinct = (class, group size, expectation, verdict).",
		Assume: []string{"votes are resolved against the member keys the harness generated"},
		Cases:  func(tier string) int { return map[string]int{"quick": 48, "thorough": 200}[tier] },
		Run:    func(c *vc.Ctx, i int) { c02History(c, i) },
	})
}

// bridgeCore renders the bitcoin module state without the hand-over queue and its nonce.
func bridgeCore(s *world.Snap) string {
	g := s.Bitcoin
	g.EthTxQueue = bitcointypes.EthTxQueue{}
	g.EthTxNonce = 0
	bz, _ := g.Marshal()
	h := sha256.Sum256(bz)
	return fmt.Sprintf("%x", h[:8])
}
