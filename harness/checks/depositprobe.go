package checks

import (
	"fmt"

	"github.com/btcsuite/btcd/wire"
	bitcointypes "github.com/goatnetwork/goat/x/bitcoin/types"
	relayertypes "github.com/goatnetwork/goat/x/relayer/types"

	"verif/harness/vc"
	"verif/harness/world"
)

// probeResult is the bridge's answer to one deposit that is genuine in every respect (ground truth of the generator):
// mined in a voted block under enough voted blocks, paying at least the minimum to the script for (key, EVM address).
type probeResult struct {
	d        *depTruth
	blockTxs int // transactions in the Bitcoin block
	code     uint32
	log      string
}

// depositProbe drives genuine deposits through the real bridge (MsgNewDeposits, one message per deposit) and reports what
// happened to each. sizes lists the Bitcoin blocks to mine: a block of k transactions is the coinbase plus k-1 deposit
// transactions, so that every position 1..k-1 of every tree shape - the last transaction of an odd-sized block, whose
// Merkle path starts with its own txid, included - carries a deposit. evmFor chooses the EVM address of the n-th deposit
// (nil: fresh random ones); scriptFor, when given, supplies the output scripts (C17 passes what the node handed out).
func depositProbe(c *vc.Ctx, idx int, label string, sizes []int, evmFor func(n int) []byte,
	scriptFor func(b *bridgeHist, version uint32, evm []byte) ([][]byte, bool)) ([]probeResult, bool) {
	cfg := lockCfg{Label: label, NVals: 2, MaxVals: 4, Blocks: 0, Protect0: true, NRelayers: 1 + idx%3}
	lh, err := newLockHistSchnorr(c, cfg, idx, idx%2 == 1)
	if err != nil {
		c.Inconclusive("setup: %v", err)
		return nil, false
	}
	defer lh.close()
	lh.crashFn = func(cr *world.ErrCrash) { c.Inconclusive("the probe history failed: %v", cr) }
	b := newBridgeHist(lh)
	b.quiet = true
	if !lh.step() {
		return nil, false
	}
	var results []probeResult
	n := 0
	for _, k := range sizes {
		if !b.refreshGroup() {
			return results, false
		}
		key := b.keys[0]
		_, schn := key.Key.(*relayertypes.PublicKey_Schnorr)
		txs := []*wire.MsgTx{b.bc.CoinbaseTx(b.bc.Tip + 1)}
		var ds []*depTruth
		if k == 1 {
			// a block of one transaction: the coinbase itself pays the deposit (empty inclusion path, position 0); it needs
			// 100 voted blocks above it
			version := uint32(n % 2)
			if schn || scriptFor != nil {
				version = 0
			}
			var evm []byte
			if evmFor != nil {
				evm = evmFor(n)
			}
			if evm == nil {
				evm = b.newEvm()
			}
			n++
			value := uint64(1_000_000 + 1000*n)
			outs, vout := b.depositOutputs(key, evm, version, value, 0)
			txs = []*wire.MsgTx{b.bc.CoinbaseTx(b.bc.Tip+1, outs...)}
			ds = append(ds, &depTruth{Vout: vout, Value: value, Version: version, Key: key, Evm: evm, Index: 0})
		}
		for p := 1; p < k; p++ {
			version := uint32((n + p) % 2)
			if schn {
				version = 0
			}
			var evm []byte
			if evmFor != nil {
				evm = evmFor(n)
			}
			if evm == nil {
				evm = b.newEvm()
			}
			n++
			value := uint64(1_000_000 + 1000*n)
			var outs []*wire.TxOut
			var vout uint32
			if scriptFor != nil {
				scs, ok := scriptFor(b, version, evm)
				if !ok {
					continue
				}
				outs = append(outs, wire.NewTxOut(int64(value), scs[0]))
				if len(scs) > 1 {
					outs = append(outs, wire.NewTxOut(0, scs[1]))
				}
			} else {
				outs, vout = b.depositOutputs(key, evm, version, value, 0)
			}
			ds = append(ds, &depTruth{Vout: vout, Value: value, Version: version, Key: key, Evm: evm, Index: len(txs)})
			txs = append(txs, b.bc.FillerTx(outs...))
		}
		blk := b.bc.Mine(txs)
		for _, d := range ds {
			d.Block, d.Raw, d.Txid = blk, blk.Raw[d.Index], blk.Txids[d.Index]
			b.deps = append(b.deps, d)
			b.byID[d.id()] = d
		}
		depth := b.params().ConfirmationNumber + 1
		if k == 1 {
			depth = 101
		}
		b.bc.MineEmpty(int(depth) + 1)
		// vote until the deposits' block is deep enough
		for guard := 0; b.votedTip < blk.Height+depth && guard < 60; guard++ {
			if !b.refreshGroup() {
				return results, false
			}
			if op := b.hashesOp("next"); op != nil {
				b.ops = append(b.ops, op)
			}
			if !b.runBlock() {
				return results, false
			}
		}
		if b.votedTip < blk.Height+depth-1 {
			c.Inconclusive("the probe could not get the Bitcoin blocks voted (tip %d, block %d)", b.votedTip, blk.Height)
			return results, false
		}
		for i := 0; i < len(ds); i += 6 {
			if !b.refreshGroup() {
				return results, false
			}
			for _, d := range ds[i:min(i+6, len(ds))] {
				d := d
				op := b.depositsOp([]*bitcointypes.Deposit{b.genuineDeposit(d)}, hdrsFor([]*depTruth{d}), fmt.Sprintf("probe k=%d pos=%d", k, d.Index), true)
				inner := op.judge
				op.judge = func(code uint32, log string) {
					inner(code, log)
					results = append(results, probeResult{d, k, code, log})
				}
				b.ops = append(b.ops, op)
			}
			if !b.runBlock() {
				return results, false
			}
		}
	}
	return results, true
}
