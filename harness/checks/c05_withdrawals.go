package checks

import (
	"bytes"
	"fmt"
	"math/big"
	"sort"

	"github.com/btcsuite/btcd/wire"
	"github.com/ethereum/go-ethereum/core/types/goattypes"
	bitcointypes "github.com/goatnetwork/goat/x/bitcoin/types"

	"verif/harness/vc"
	"verif/harness/world"
)

// Reference model of withdrawals, written from the statement of C05.
type wdM struct {
	ID       uint64
	Addr     string
	Script   []byte // nil: undecodable address, refunded at creation
	Amount   uint64
	MaxPrice uint64
	State    string // pending, canceling, processing, paid, canceled
	Pid      int64
	Paid     int
	Refunded int
	PaidAmt  *big.Int
	Competed bool // saw two competing operations
}

type wdCand struct {
	wrongHeaderTried bool // the directed first attempt with a wrong header has been made
	Txid             []byte
	Raw              []byte
	Vals             []uint64
	Fee              uint64
	// where it was mined (ground truth), 0 = not mined
	Height uint64
	Index  int
}

type procM struct {
	Pid   uint64
	Ids   []uint64
	Cands []*wdCand
	Done  bool
	FinTx []byte
}

type wdEvent struct {
	kind string
	id   uint64
	key  string
}

type wdMon struct {
	b        *bridgeHist
	wds      map[uint64]*wdM
	procs    map[uint64]*procM
	next     uint64
	npid     uint64
	acts     map[uint64]string        // id -> operation accepted in the current block that may move it
	events   []wdEvent                // terminal events of accepted operations, in order (C06's owed log)
	classify func(addr string) []byte // ground truth: the script a withdrawal address stands for, nil = must be refunded
}

var wdEdges = map[string]bool{
	"pending>canceling": true, "pending>processing": true, "canceling>processing": true, "canceling>canceled": true,
	"processing>paid": true, "pending>pending": true, "canceling>canceling": true, "processing>processing": true, "paid>paid": true, "canceled>canceled": true,
	// both within one block
	"pending>canceled": true, "pending>paid": true, "canceling>paid": true,
}

func statusName(s bitcointypes.WithdrawalStatus) string {
	switch s {
	case bitcointypes.WITHDRAWAL_STATUS_PENDING:
		return "pending"
	case bitcointypes.WITHDRAWAL_STATUS_PROCESSING:
		return "processing"
	case bitcointypes.WITHDRAWAL_STATUS_CANCELING:
		return "canceling"
	case bitcointypes.WITHDRAWAL_STATUS_CANCELED:
		return "canceled"
	case bitcointypes.WITHDRAWAL_STATUS_PAID:
		return "paid"
	}
	return "unspecified"
}

func newWdMon(b *bridgeHist) *wdMon {
	m := &wdMon{b: b, wds: map[uint64]*wdM{}, procs: map[uint64]*procM{}, acts: map[uint64]string{}}
	c := b.lh.c
	// execution-layer requests of a successful block message
	b.onBridgeReqs = func(r *goattypes.BridgeRequests) {
		for _, w := range r.Withdraws {
			x := &wdM{ID: w.Id, Addr: w.Address, Amount: w.Amount, MaxPrice: w.TxPrice, State: "pending", Pid: -1}
			if sc := m.classify(w.Address); sc != nil {
				x.Script = sc
			} else {
				x.State = "canceled" // refunded at creation
				c.Count("withdrawals_refunded_at_creation", 1)
			}
			m.wds[w.Id] = x
			c.Count("withdrawal_requests", 1)
		}
		for _, f := range r.ReplaceByFees {
			if x := m.wds[f.Id]; x != nil && (x.State == "pending" || x.State == "processing") {
				x.MaxPrice = f.TxPrice
			}
		}
		for _, cn := range r.Cancel1s {
			if x := m.wds[cn.Id]; x != nil && x.State == "pending" {
				x.State = "canceling"
				c.Count("cancellations_requested", 1)
			}
		}
	}
	prev := b.onDeliver
	b.onDeliver = func(st world.SysTx, blk *world.Block) {
		if prev != nil {
			prev(st, blk)
		}
		switch t := st.Tx.(type) {
		case *goattypes.PaidTx:
			c.Eval(1)
			x := m.wds[t.Id.Uint64()]
			if x == nil {
				b.viol("execution layer told 'paid' for an unknown withdrawal", t.Id.String())
				return
			}
			x.Paid++
			if x.State != "paid" {
				b.viol("execution layer told 'paid' for a withdrawal that is not paid", fmt.Sprintf("id %d is %s by the accepted operations", x.ID, x.State))
			}
			if x.Paid+x.Refunded > 1 {
				b.viol("more than one terminal notice for a withdrawal", fmt.Sprintf("id %d: paid notices %d, refund notices %d", x.ID, x.Paid, x.Refunded))
			}
			if x.PaidAmt != nil && new(big.Int).Mul(x.PaidAmt, big.NewInt(1e10)).Cmp(t.Amount) != 0 {
				b.viol("reported paid amount is not the finalised transaction's output", fmt.Sprintf("id %d: finalised output %s sat, reported %s wei", x.ID, x.PaidAmt, t.Amount))
			}
			if p := m.procs[uint64(x.Pid)]; p != nil && p.FinTx != nil && !bytes.Equal(p.FinTx, t.Txid[:]) {
				b.viol("reported paid txid is not the finalised transaction", fmt.Sprintf("id %d", x.ID))
			}
			c.Count("paid_notices_checked", 1)
		case *goattypes.Cancel2Tx:
			c.Eval(1)
			x := m.wds[t.Id.Uint64()]
			if x == nil {
				b.viol("execution layer told 'refund' for an unknown withdrawal", t.Id.String())
				return
			}
			x.Refunded++
			if x.State != "canceled" {
				b.viol("execution layer told 'refund' for a withdrawal that is not cancelled", fmt.Sprintf("id %d is %s by the accepted operations", x.ID, x.State))
			}
			if x.Paid+x.Refunded > 1 {
				b.viol("more than one terminal notice for a withdrawal", fmt.Sprintf("id %d: paid notices %d, refund notices %d", x.ID, x.Paid, x.Refunded))
			}
			c.Count("refund_notices_checked", 1)
		}
	}
	return m
}

// idsIn returns model ids in the given states, sorted.
func (m *wdMon) idsIn(states ...string) []uint64 {
	var out []uint64
	for id, x := range m.wds {
		for _, s := range states {
			if x.State == s {
				out = append(out, id)
			}
		}
	}
	sort.Slice(out, func(i, j int) bool { return out[i] < out[j] })
	return out
}

// payoutFor builds a candidate transaction for ids with fee/size just within every id's price.
func (m *wdMon) payoutFor(ids []uint64, perturb string) (*wire.MsgTx, uint64, []uint64) {
	b := m.b
	r := b.lh.r
	var outs []*wire.TxOut
	var vals []uint64
	minPrice := uint64(1 << 62)
	for k, id := range ids {
		x := m.wds[id]
		var script []byte
		amt, price := uint64(50_000), uint64(10)
		if x != nil {
			script, amt, price = x.Script, x.Amount, x.MaxPrice
		}
		if script == nil {
			script = append([]byte{0x00, 0x14}, world.Derive(1, "nos", int(id))[:20]...)
		}
		v := amt - uint64(r.Intn(1+int(amt/10)))
		if r.Intn(3) == 0 {
			v = amt
		}
		switch {
		case perturb == "value+1" && k == 0:
			v = amt + 1
		case perturb == "wrong-script" && k == 0:
			script = append([]byte{0x00, 0x14}, world.Derive(2, "wrong", int(id))[:20]...)
		}
		outs = append(outs, wire.NewTxOut(int64(v), script))
		vals = append(vals, v)
		if price < minPrice {
			minPrice = price
		}
	}
	if perturb == "swap-outputs" && len(outs) >= 2 {
		outs[0], outs[1] = outs[1], outs[0]
		vals[0], vals[1] = vals[1], vals[0]
	}
	switch perturb {
	case "two-extra-outputs":
		outs = append(outs, wire.NewTxOut(1000, world.SystemScript(b.curKey)), wire.NewTxOut(1000, world.SystemScript(b.curKey)))
	case "change-to-foreign-key":
		outs = append(outs, wire.NewTxOut(1000, world.SystemScript(world.BtcPubKey(world.Derive(3, "foreign", 0), false))))
	case "change-lookalike-version", "change-lookalike-push":
		// the current relayer key's program under another witness version, or behind another push opcode: not an output
		// the relayer key can spend
		sc := append([]byte(nil), world.SystemScript(b.curKey)...)
		if perturb == "change-lookalike-version" {
			sc[0] ^= 0x51
		} else {
			sc[1]++
		}
		outs = append(outs, wire.NewTxOut(1000, sc))
	case "change-to-old-key":
		if len(b.keys) >= 2 {
			outs = append(outs, wire.NewTxOut(1000, world.SystemScript(b.keys[0])))
		} else {
			outs = append(outs, wire.NewTxOut(1000, world.SystemScript(world.BtcPubKey(world.Derive(3, "foreign", 1), false))))
		}
	default:
		if r.Intn(2) == 0 {
			outs = append(outs, wire.NewTxOut(int64(1000+r.Intn(5000)), world.SystemScript(b.curKey)))
		}
	}
	tx := b.bc.FillerTx(outs...)
	size := uint64(len(world.NoWitness(tx)))
	if minPrice > 1<<40 {
		minPrice = 1 << 40
	}
	fee := minPrice * size // exactly at the limit
	if r.Intn(2) == 0 && fee > 1 {
		fee = 1 + uint64(r.Int63n(int64(fee)))
	}
	if fee == 0 {
		fee = 1
	}
	if perturb == "fee-above-limit" {
		fee = minPrice*size + 1
	}
	if perturb == "padded-tx" || perturb == "witness-serialization" {
		// above the limit for the transaction's real size, within it for the length of the submitted field once 200 bytes
		// of padding or witness data are counted in
		fee = minPrice*size + minPrice*100 + 1
	}
	return tx, fee, vals
}

// judgePayout applies clause (3) of the statement to an accepted candidate transaction.
func (m *wdMon) judgePayout(kind string, ids []uint64, raw []byte, fee uint64, needState string) (ok bool) {
	b := m.b
	ok = true
	bad := func(why string) {
		ok = false
		b.viol("withdrawal made "+kind+" by a transaction outside the user's terms: "+sigClass(why), fmt.Sprintf("%s of ids %v: %s", kind, ids, why))
	}
	var tx wire.MsgTx
	if err := tx.DeserializeNoWitness(bytes.NewReader(raw)); err != nil {
		bad("undecodable transaction")
		return
	}
	// the fee rate is a rate per byte of the Bitcoin transaction, not of the message field: bytes behind the transaction
	// (or witness data) do not make it cheaper
	size := tx.SerializeSizeStripped()
	if size != len(raw) {
		bad(fmt.Sprintf("the transaction field has %d bytes, the transaction it carries %d", len(raw), size))
	}
	if len(tx.TxOut) != len(ids) && len(tx.TxOut) != len(ids)+1 {
		bad(fmt.Sprintf("%d outputs for %d withdrawals", len(tx.TxOut), len(ids)))
		return
	}
	seen := map[uint64]bool{}
	for k, id := range ids {
		x := m.wds[id]
		if x == nil {
			bad(fmt.Sprintf("unknown withdrawal id %d", id))
			continue
		}
		if seen[id] {
			bad(fmt.Sprintf("id %d twice in one batch", id))
		}
		seen[id] = true
		okState := x.State == needState || (needState == "pending" && x.State == "canceling")
		if !okState {
			bad(fmt.Sprintf("id %d is %s", id, x.State))
		}
		o := tx.TxOut[k]
		if x.Script == nil || !bytes.Equal(o.PkScript, x.Script) {
			bad(fmt.Sprintf("output %d does not pay the address script of id %d", k, id))
		}
		if uint64(o.Value) > x.Amount {
			bad(fmt.Sprintf("output %d pays %d, more than the requested %d", k, o.Value, x.Amount))
		}
		// fee rate: fee/size <= max price, in exact integers
		if new(big.Int).SetUint64(fee).Cmp(new(big.Int).Mul(new(big.Int).SetUint64(x.MaxPrice), big.NewInt(int64(size)))) > 0 {
			bad(fmt.Sprintf("fee %d over %d bytes exceeds the maximum rate %d of id %d", fee, size, x.MaxPrice, id))
		}
	}
	if len(tx.TxOut) == len(ids)+1 && !bytes.Equal(tx.TxOut[len(ids)].PkScript, world.SystemScript(b.curKey)) {
		bad("the extra output does not pay the current relayer key")
	}
	return
}

// rawFor renders the transaction field of a process / fee-bump message: the canonical serialisation without witness
// data, or (perturbed) that followed by 200 zero bytes, or the witness serialisation with a 200-byte witness item -
// the same Bitcoin transaction (same txid) in a longer field.
func rawFor(tx *wire.MsgTx, perturb string) []byte {
	switch perturb {
	case "padded-tx":
		return append(append([]byte{}, world.NoWitness(tx)...), make([]byte, 200)...)
	case "witness-serialization":
		cp := tx.Copy()
		for _, in := range cp.TxIn {
			in.Witness = wire.TxWitness{make([]byte, 200)}
		}
		var buf bytes.Buffer
		if cp.Serialize(&buf) == nil {
			return buf.Bytes()
		}
	}
	return world.NoWitness(tx)
}

func (m *wdMon) processOp(ids []uint64, perturb string) *relOp {
	b := m.b
	if b.votedUsed || len(ids) == 0 {
		return nil
	}
	tx, fee, vals := m.payoutFor(ids, perturb)
	raw := rawFor(tx, perturb)
	msg := &bitcointypes.MsgProcessWithdrawal{Proposer: b.group.Proposer.AddrStr, Id: ids, NoWitnessTx: raw, TxFee: fee}
	v, err := b.lh.ch.QuorumVote(b.group, msg)
	if err != nil {
		return nil
	}
	msg.Vote = v
	b.votedUsed = true
	c := b.lh.c
	return &relOp{msg: msg, desc: fmt.Sprintf("process%v[%s]", ids, perturb), judge: func(code uint32, log string) {
		c.Eval(1)
		c.Nontrivial("process n=%d perturb=%s accepted=%v", len(ids), perturb, code == 0)
		if code != 0 {
			if perturb == "" {
				c.Count("genuine_process_rejected", 1)
				b.lh.logf("genuine process rejected: %s", log)
			} else {
				c.Count("hostile_process_rejected", 1)
			}
			return
		}
		c.Count("process_accepted", 1)
		m.judgePayout("processing", ids, raw, fee, "pending")
		p := &procM{Pid: m.npid, Ids: ids, Cands: []*wdCand{{Txid: world.DSha(raw), Raw: raw, Vals: vals, Fee: fee}}}
		m.procs[m.npid] = p
		for _, id := range ids {
			if x := m.wds[id]; x != nil {
				if x.State == "canceling" {
					x.Competed = true
				}
				x.State, x.Pid = "processing", int64(m.npid)
				m.acts[id] = "process"
			}
		}
		m.npid++
	}}
}

func (m *wdMon) replaceOp(p *procM, perturb string) *relOp {
	b := m.b
	if b.votedUsed {
		return nil
	}
	last := p.Cands[len(p.Cands)-1]
	tx, fee, vals := m.payoutFor(p.Ids, map[string]string{"wrong-script": "wrong-script", "value+1": "value+1", "two-extra-outputs": "two-extra-outputs", "change-to-foreign-key": "change-to-foreign-key", "change-to-old-key": "change-to-old-key", "change-lookalike-version": "change-lookalike-version", "change-lookalike-push": "change-lookalike-push", "swap-outputs": "swap-outputs", "fee-above-limit": "fee-above-limit", "padded-tx": "padded-tx", "witness-serialization": "witness-serialization"}[perturb])
	raw := rawFor(tx, perturb)
	// strictly higher fee within the users' limits, unless perturbed
	switch perturb {
	case "fee-equal":
		fee = last.Fee
	case "fee-lower":
		if last.Fee > 1 {
			fee = last.Fee - 1
		} else {
			fee = last.Fee
		}
	case "same-tx":
		raw, vals, fee = last.Raw, last.Vals, last.Fee+1
	default:
		if fee <= last.Fee {
			fee = last.Fee + 1
		}
	}
	msg := &bitcointypes.MsgReplaceWithdrawal{Proposer: b.group.Proposer.AddrStr, Pid: p.Pid, NewNoWitnessTx: raw, NewTxFee: fee}
	v, err := b.lh.ch.QuorumVote(b.group, msg)
	if err != nil {
		return nil
	}
	msg.Vote = v
	b.votedUsed = true
	c := b.lh.c
	return &relOp{msg: msg, desc: fmt.Sprintf("replace pid=%d[%s]", p.Pid, perturb), judge: func(code uint32, log string) {
		c.Eval(1)
		c.Nontrivial("replace n=%d perturb=%s accepted=%v", len(p.Ids), perturb, code == 0)
		if code != 0 {
			c.Count("replace_rejected", 1)
			return
		}
		c.Count("replace_accepted", 1)
		if p.Done {
			b.viol("fee bump accepted for a finalised batch", fmt.Sprint(p.Pid))
		}
		if fee <= last.Fee {
			b.viol("fee bump accepted without a strictly higher fee", fmt.Sprintf("pid %d: previous fee %d, new fee %d", p.Pid, last.Fee, fee))
		}
		for _, cd := range p.Cands {
			if bytes.Equal(cd.Txid, world.DSha(raw)) {
				b.viol("fee bump accepted with an unchanged transaction", fmt.Sprint(p.Pid))
			}
		}
		m.judgePayout("re-processed (fee bump)", p.Ids, raw, fee, "processing")
		p.Cands = append(p.Cands, &wdCand{Txid: world.DSha(raw), Raw: raw, Vals: vals, Fee: fee})
		for _, id := range p.Ids {
			if x := m.wds[id]; x != nil {
				x.Competed = true
			}
		}
	}}
}

func (m *wdMon) finalizeOp(p *procM, cd *wdCand, perturb string) *relOp {
	b := m.b
	blk := b.bc.Blocks[cd.Height]
	if blk == nil {
		return nil
	}
	msg := &bitcointypes.MsgFinalizeWithdrawal{Proposer: b.group.Proposer.AddrStr, Pid: p.Pid, Txid: cd.Txid, BlockNumber: cd.Height, TxIndex: uint32(cd.Index),
		IntermediateProof: blk.Tree.Proof(cd.Index), BlockHeader: blk.Header}
	switch perturb {
	case "unvoted-txid":
		msg.Txid = world.Derive(5, "txid", int(p.Pid))
	case "txid-of-a-filler":
		msg.Txid = blk.Txids[0]
		msg.TxIndex, msg.IntermediateProof = 0, blk.Tree.Proof(0)
	case "filler-under-alias":
		// another transaction of the block presented for this batch
		o := (cd.Index + 1) % len(blk.Txids)
		msg.Txid, msg.TxIndex, msg.IntermediateProof = blk.Txids[o], uint32(o)+uint32(1)<<uint(blk.Tree.Depth()), blk.Tree.Proof(o)
	case "proof-bitflip":
		pr := append([]byte(nil), msg.IntermediateProof...)
		if len(pr) > 0 {
			pr[b.lh.r.Intn(len(pr))] ^= 4
		}
		msg.IntermediateProof = pr
	case "wrong-header":
		h := append([]byte(nil), blk.Header...)
		h[70] ^= 1
		msg.BlockHeader = h
	case "forged-header-root":
		h := append([]byte(nil), blk.Header...)
		tree := world.NewMerkleTree([][]byte{world.Derive(6, "x", 1), cd.Txid})
		copy(h[36:68], tree.Root())
		msg.BlockHeader, msg.TxIndex, msg.IntermediateProof = h, 1, tree.Proof(1)
	case "unvoted-height":
		msg.BlockNumber = b.votedTip + 5
	case "other-pid":
		msg.Pid = p.Pid + 1000
	case "unmined-candidate":
		// a voted candidate that is not in that block
		for _, o := range p.Cands {
			if o.Height == 0 {
				msg.Txid = o.Txid
			}
		}
		if bytes.Equal(msg.Txid, cd.Txid) {
			return nil
		}
	}
	c := b.lh.c
	return &relOp{msg: msg, desc: fmt.Sprintf("finalize pid=%d[%s]", p.Pid, perturb), judge: func(code uint32, log string) {
		c.Eval(1)
		c.Nontrivial("finalize perturb=%s accepted=%v candidates=%d", perturb, code == 0, len(p.Cands))
		if code != 0 {
			if perturb == "" {
				c.Count("genuine_finalize_rejected", 1)
				b.lh.logf("genuine finalize rejected: %s", log)
			} else {
				c.Count("hostile_finalize_rejected", 1)
			}
			return
		}
		c.Count("finalize_accepted", 1)
		tp := m.procs[msg.Pid]
		if tp == nil || tp.Done {
			b.viol("finalisation accepted for an unknown or already finalised batch", fmt.Sprint(msg.Pid))
			return
		}
		var hit *wdCand
		for _, o := range tp.Cands {
			if bytes.Equal(o.Txid, msg.Txid) {
				hit = o
			}
		}
		if hit == nil {
			b.viol("withdrawal finalised with a transaction that was never voted for its batch", fmt.Sprintf("pid %d txid %x (%s)", msg.Pid, msg.Txid[:6], perturb))
		}
		vb := b.bc.Blocks[msg.BlockNumber]
		inBlock := false
		if vb != nil && bytes.Equal(b.voted[msg.BlockNumber], vb.Hash) && bytes.Equal(msg.BlockHeader, vb.Header) {
			for _, t := range vb.Txids {
				if bytes.Equal(t, msg.Txid) {
					inBlock = true
				}
			}
		}
		if !inBlock {
			b.viol("withdrawal finalised without inclusion of the transaction in a voted block", fmt.Sprintf("pid %d height %d (%s)", msg.Pid, msg.BlockNumber, perturb))
		}
		tp.Done, tp.FinTx = true, msg.Txid
		for k, id := range tp.Ids {
			if x := m.wds[id]; x != nil {
				if x.State != "processing" {
					b.viol("withdrawal paid from state "+x.State, fmt.Sprintf("id %d", id))
				}
				x.State = "paid"
				m.acts[id] = "finalize"
				if hit != nil && k < len(hit.Vals) {
					x.PaidAmt = new(big.Int).SetUint64(hit.Vals[k])
					wei := new(big.Int).Mul(x.PaidAmt, big.NewInt(1e10))
					m.events = append(m.events, wdEvent{"paid", id, fmt.Sprintf("id=%d txid=%x vout=%d amount=%s", id, msg.Txid, k, wei)})
				}
			}
		}
	}}
}

func (m *wdMon) approveOp(ids []uint64, perturb string) *relOp {
	b := m.b
	if len(ids) == 0 {
		return nil
	}
	msg := &bitcointypes.MsgApproveCancellation{Proposer: b.group.Proposer.AddrStr, Id: ids}
	c := b.lh.c
	return &relOp{msg: msg, desc: fmt.Sprintf("approve-cancel%v[%s]", ids, perturb), judge: func(code uint32, log string) {
		c.Eval(1)
		c.Nontrivial("approve n=%d perturb=%s accepted=%v", len(ids), perturb, code == 0)
		if code != 0 {
			c.Count("approve_rejected", 1)
			return
		}
		c.Count("approve_accepted", 1)
		seen := map[uint64]bool{}
		for _, id := range ids {
			x := m.wds[id]
			if x == nil {
				b.viol("cancellation approved for an unknown withdrawal", fmt.Sprint(id))
				continue
			}
			if seen[id] {
				b.viol("cancellation approved twice in one message", fmt.Sprint(id))
			}
			seen[id] = true
			if x.State != "canceling" {
				b.viol("cancellation approved for a withdrawal that did not ask for it: "+x.State, fmt.Sprintf("id %d", id))
			}
			x.State = "canceled"
			m.acts[id] = "approve"
			m.events = append(m.events, wdEvent{"refund", id, fmt.Sprintf("id=%d", id)})
		}
	}}
}

// observe compares the chain's status of every known withdrawal with the model.
func (m *wdMon) observe() {
	b := m.b
	c := b.lh.c
	for id, x := range m.wds {
		var resp bitcointypes.QueryWithdrawalResponse
		if err := b.lh.ch.Node().Query("/goat.bitcoin.v1.Query/Withdrawal", &bitcointypes.QueryWithdrawalRequest{Id: id}, &resp); err != nil {
			b.viol("a requested withdrawal cannot be queried", fmt.Sprintf("id %d: %v", id, err))
			continue
		}
		got := statusName(resp.Withdrawal.Status)
		c.Count("status_observations", 1)
		if got != x.State {
			b.viol("withdrawal status differs from what the accepted operations imply", fmt.Sprintf("id %d: chain says %s, the accepted operations imply %s", id, got, x.State))
			x.State = got
		}
		if got == "processing" && x.MaxPrice != resp.Withdrawal.MaxTxPrice || (got == "pending" && x.MaxPrice != resp.Withdrawal.MaxTxPrice) {
			b.viol("maximum fee rate differs from the user's latest request", fmt.Sprintf("id %d: chain %d, requests %d", id, resp.Withdrawal.MaxTxPrice, x.MaxPrice))
			x.MaxPrice = resp.Withdrawal.MaxTxPrice
		}
	}
	m.acts = map[uint64]string{}
}

var processPerturbs = []string{"value+1", "wrong-script", "fee-above-limit", "padded-tx", "witness-serialization", "two-extra-outputs", "change-to-foreign-key", "change-to-old-key", "swap-outputs", "change-lookalike-version", "change-lookalike-push"}
var finalizePerturbs = []string{"unvoted-txid", "txid-of-a-filler", "filler-under-alias", "proof-bitflip", "wrong-header", "forged-header-root", "unvoted-height", "other-pid", "unmined-candidate"}

// c05Gen queues one block's worth of user requests, relayer operations and Bitcoin activity for withdrawals.
func c05Gen(m *wdMon, blk, nBlocks, idx int, addrPool []addrCase) {
	b := m.b
	lh := b.lh
	r := lh.r
	c := lh.c
	// ---- users (execution layer, well-behaved ids) ----
	if blk < nBlocks-25 {
		for k := r.Intn(3); k > 0 && m.next < 12+uint64(blk/4); k-- {
			amt := []uint64{30_000, 100_000, 1_000_000, 5_000_000_000}[r.Intn(4)]
			price := []uint64{1, 5, 50, 1000, 0, 5, 1, 50}[r.Intn(8)] // 0 = no fee rate is acceptable: such a withdrawal can only be cancelled
			addr, _ := world.P2WPKH(world.Derive(c.Seed, "wdaddr", int(m.next)*100+idx)[:20], regtest)
			if r.Intn(5) == 0 {
				addr = addrPool[r.Intn(len(addrPool))].Str
			}
			id := m.next
			if m.next%6 == 5 {
				id |= 1 << 63 // ids are 64-bit numbers of the execution layer: the upper half of the range is as good as the lower
				c.Count("withdrawal_ids_above_2^63", 1)
			}
			b.bridgeReq.Withdraws = append(b.bridgeReq.Withdraws, &goattypes.WithdrawalRequest{Id: id, Amount: amt, TxPrice: price, Address: addr})
			lh.logf("EL: withdraw #%d %d sat price %d to %q", id, amt, price, addr)
			m.next++
		}
		if ids := m.idsIn("pending", "processing", "paid", "canceled"); len(ids) > 0 && r.Intn(4) == 0 {
			id := ids[r.Intn(len(ids))]
			p := []uint64{1, 3, 20, 200, 5000, 0}[r.Intn(6)]
			b.bridgeReq.ReplaceByFees = append(b.bridgeReq.ReplaceByFees, &goattypes.ReplaceByFeeRequest{Id: id, TxPrice: p})
			lh.logf("EL: rbf #%d price %d", id, p)
		}
		if ids := m.idsIn("pending", "processing", "canceling", "paid", "canceled"); len(ids) > 0 && r.Intn(3) == 0 {
			id := ids[r.Intn(len(ids))]
			b.bridgeReq.Cancel1s = append(b.bridgeReq.Cancel1s, &goattypes.Cancel1Request{Id: id})
			lh.logf("EL: cancel #%d", id)
		}
	}
	// ---- relayer: one voted message ----
	var open []*procM
	for _, p := range m.procs {
		if !p.Done {
			open = append(open, p)
		}
	}
	sort.Slice(open, func(i, j int) bool { return open[i].Pid < open[j].Pid })
	pend := m.idsIn("pending", "canceling")
	switch x := r.Intn(10); {
	case x < 3 && b.bc.Tip > b.votedTip:
		if op := b.hashesOp("next"); op != nil {
			b.ops = append(b.ops, op)
		}
	case x < 6 && len(pend) > 0:
		n := 1 + r.Intn(min(len(pend), 4))
		r.Shuffle(len(pend), func(i, j int) { pend[i], pend[j] = pend[j], pend[i] })
		ids := append([]uint64{}, pend[:n]...)
		perturb := ""
		switch r.Intn(6) {
		case 0:
			perturb = processPerturbs[r.Intn(len(processPerturbs))]
		case 1: // an id in another state, a duplicate, an unknown id
			others := m.idsIn("processing", "paid", "canceled")
			switch {
			case len(others) > 0 && r.Intn(2) == 0:
				ids = append(ids, others[r.Intn(len(others))])
				perturb = "id-in-other-state"
			case r.Intn(2) == 0:
				ids = append(ids, ids[0])
				perturb = "duplicate-id"
			default:
				ids = append(ids, 99999)
				perturb = "unknown-id"
			}
		}
		if op := m.processOp(ids, perturb); op != nil {
			b.ops = append(b.ops, op)
		}
	case x < 8 && len(open) > 0:
		p := open[r.Intn(len(open))]
		perturb := ""
		if r.Intn(2) == 0 {
			rp := []string{"fee-equal", "fee-lower", "same-tx", "wrong-script", "value+1", "two-extra-outputs", "change-to-foreign-key", "change-to-old-key", "swap-outputs", "fee-above-limit", "padded-tx", "witness-serialization", "change-lookalike-version", "change-lookalike-push"}
			perturb = rp[r.Intn(len(rp))]
		}
		if op := m.replaceOp(p, perturb); op != nil {
			b.ops = append(b.ops, op)
		}
	default:
		if op := b.hashesOp("next"); op != nil {
			b.ops = append(b.ops, op)
		}
	}
	// ---- Bitcoin: mine candidates of open batches ----
	if len(open) > 0 && r.Intn(3) == 0 {
		p := open[r.Intn(len(open))]
		cd := p.Cands[r.Intn(len(p.Cands))]
		if cd.Height == 0 {
			var tx wire.MsgTx
			if err := tx.DeserializeNoWitness(bytes.NewReader(cd.Raw)); err == nil {
				txs := []*wire.MsgTx{b.bc.CoinbaseTx(b.bc.Tip + 1)}
				for f := r.Intn(3); f > 0; f-- {
					txs = append(txs, b.bc.FillerTx())
				}
				cd.Index = len(txs)
				txs = append(txs, &tx)
				for f := r.Intn(3); f > 0; f-- {
					txs = append(txs, b.bc.FillerTx())
				}
				blk := b.bc.Mine(txs)
				cd.Height = blk.Height
				lh.logf("bitcoin: candidate of pid %d mined in block %d at position %d", p.Pid, blk.Height, cd.Index)
			}
		}
	}
	// ---- relayer: unvoted messages ----
	for _, p := range open {
		for _, cd := range p.Cands {
			if cd.Height != 0 && cd.Height <= b.votedTip && r.Intn(2) == 0 {
				perturb := ""
				if r.Intn(2) == 0 {
					perturb = finalizePerturbs[r.Intn(len(finalizePerturbs))]
				}
				if !cd.wrongHeaderTried {
					// directed: the first finalisation attempt for every mined candidate names a wrong header; the genuine one
					// for the same height follows in a later block (a refused message must leave nothing behind for it)
					cd.wrongHeaderTried = true
					perturb = "wrong-header"
				}
				if op := m.finalizeOp(p, cd, perturb); op != nil {
					b.ops = append(b.ops, op)
					if perturb == "" {
						break
					}
				}
			}
		}
	}
	if cl := m.idsIn("canceling"); len(cl) > 0 && r.Intn(2) == 0 {
		n := 1 + r.Intn(len(cl))
		ids, perturb := cl[:n], ""
		switch r.Intn(8) {
		case 0: // the same id twice in one batch
			ids, perturb = append(append([]uint64{}, ids...), ids[0]), "duplicate-id"
		case 1: // an id nobody ever requested
			ids, perturb = append(append([]uint64{}, ids...), 900_000+uint64(blk)), "unknown-id"
		case 2: // more ids than a batch may carry
			ids = append([]uint64{}, ids...)
			for len(ids) < 33 {
				ids = append(ids, ids[0])
			}
			perturb = "thirty-three-ids"
		}
		if op := m.approveOp(ids, perturb); op != nil {
			b.ops = append(b.ops, op)
		}
	} else if r.Intn(6) == 0 {
		others := m.idsIn("pending", "processing", "paid", "canceled")
		if len(others) > 0 {
			ids := []uint64{others[r.Intn(len(others))]}
			if len(cl) > 0 {
				ids = append(ids, cl[0])
			}
			if op := m.approveOp(ids, "id-in-other-state"); op != nil {
				b.ops = append(b.ops, op)
			}
		}
	}
}

func c05History(c *vc.Ctx, idx int) {
	cfg := lockCfg{Label: "c05", NVals: 1, Blocks: c.Pick(70, 170), Protect0: true, NRelayers: 1 + idx%3, W: lockWeights{}}
	lh, err := newLockHistSchnorr(c, cfg, idx, idx%2 == 1)
	if err != nil {
		c.Inconclusive("setup: %v", err)
		return
	}
	defer lh.close()
	lh.crashFn = func(cr *world.ErrCrash) {
		c.Violation("block processing failed during a withdrawal history", cr.Error(), lh.replay())
	}
	b := newBridgeHist(lh)
	m := newWdMon(b)
	b.afterBlock = m.observe
	_ = lh.r
	if !lh.step() {
		return
	}
	var addrPool []addrCase
	for _, ac := range c17AddrCases(c.Seed, 7000+idx, 1, regtest) {
		// an empty string cannot be carried by goat-geth's own request codec (a well-behaved execution layer never
		// emits it), and encodings the statement does not decide are left out of the reference model
		if ac.Str != "" && ac.Expect != 2 {
			addrPool = append(addrPool, ac)
		}
	}
	expectOf := map[string]addrCase{}
	for _, ac := range addrPool {
		expectOf[ac.Str] = ac
	}
	m.classify = func(a string) []byte {
		if ac, ok := expectOf[a]; ok {
			if ac.Expect == 1 {
				return ac.Script
			}
			return nil
		}
		sc, _, err := scriptOfAddress(a)
		if err != nil {
			return nil
		}
		return sc
	}
	for blk := 0; blk < cfg.Blocks && !lh.failed; blk++ {
		if !b.refreshGroup() {
			return
		}
		c05Gen(m, blk, cfg.Blocks, idx, addrPool)
		if !b.runBlock() {
			return
		}
	}
	if lh.failed {
		return
	}
	// drain: every terminal withdrawal gets exactly one notice
	for k := 0; k < len(m.wds)/8+4; k++ {
		if !b.refreshGroup() || !b.runBlock() {
			return
		}
	}
	terminal, competed := 0, 0
	for id, x := range m.wds {
		if x.Competed {
			competed++
		}
		if x.State == "paid" || x.State == "canceled" {
			terminal++
			c.Eval(1)
			if x.Paid+x.Refunded != 1 || (x.State == "paid") != (x.Paid == 1) {
				b.viol("terminal withdrawal without exactly one matching notice to the execution layer", fmt.Sprintf("id %d is %s: paid notices %d, refund notices %d", id, x.State, x.Paid, x.Refunded))
			}
		} else if x.Paid+x.Refunded > 0 {
			b.viol("notice for a withdrawal that is not terminal", fmt.Sprintf("id %d is %s: paid notices %d, refund notices %d", id, x.State, x.Paid, x.Refunded))
		}
	}
	if terminal == 0 {
		c.Count("histories_without_a_terminal_withdrawal", 1) // judged over the whole run (checkconf.json: require_observed)
	}
	c.Sample(map[string]any{"withdrawals": len(m.wds), "terminal": terminal, "batches": len(m.procs), "with_competing_operations": competed, "last_ops": lastN(lh.opsLog, 4)})
}

func init() {
	vc.Register(&vc.Check{
		ID: "C05", Title: "Withdrawals reach exactly one terminal outcome, paid within the user's terms", Level: "exploration",
		Rule: "one case = one history (70/170 blocks + drain) over <= 12+ withdrawal ids on a well-behaved execution layer: user requests withdraw (standard, foreign, pay-to-pubkey and junk addresses), fee update, cancel; relayer operations process (batches of 1..4 ids; ids in other states, duplicates, unknown ids; outputs perturbed: value+1, wrong script, fee one unit above the limit, two extra outputs, change to an old/foreign key, swapped outputs), " +
			"fee bump (equal/lower fee, same tx, perturbed outputs), finalise (each voted candidate once mined and voted; unvoted txid, another tx of the block, alias position, bit-flipped proof, wrong/forged header, unvoted height, other batch, unmined candidate), approve cancellation (also for ids in other states); " +
			"a reference state machine written from the statement is stepped with the accepted operations; every acceptance is judged against the generator's ground truth (address script, requested amount, exact integer fee-rate comparison, change output, candidate membership, real inclusion in a voted block), the chain's status of every id is compared with the model after every block, and the paid/refund system txs must be one per terminal id with the finalised candidate's amount. Non-trivial = every judged relayer operation; distinct = (operation, size, perturbation, verdict).",
		Assume: []string{"amounts < 2^47 and fee rates < 2^32 so that the code's float comparison is exact", "the claimed position is not judged (C04)"},
		Cases:  func(tier string) int { return map[string]int{"quick": 48, "thorough": 200}[tier] },
		Run:    func(c *vc.Ctx, i int) { c05History(c, i) },
	})
}
