#!/usr/bin/env python3
"""Regenerates MANIFEST.json from the table below (kept in one place so it stays valid)."""
import json, os
ROOT = os.path.dirname(os.path.abspath(__file__))
T = json.load(open(os.path.join(ROOT, "manifest_table.json")))
props = [json.loads(l) for l in open(os.path.join(ROOT, "properties.jsonl"))]
checks, na = [], []
for p in props:
    pid = p["id"]
    e = T["checks"].get(pid)
    if e is None:
        na.append({"property_id": pid, "reason": T["not_claimed"].get(pid, "check not built yet (work in progress); the design in DESIGN.md section 6 applies")})
        continue
    checks.append({
        "property_id": pid,
        "quick_cmd": "./check %s --tier quick" % pid,
        "thorough_cmd": "./check %s --tier thorough" % pid,
        "evidence_file": "/verif/evidence/%s.json" % pid,
        "replay_cmd_template": "./check %s --replay {path}" % pid,
        "engine": e.get("engine", "world"),
        "level_claimed": {"category": e["category"], "text": e["text"], "design_ref": "DESIGN.md section 6, " + pid},
        "level_note": e["note"],
        "technique": e["technique"],
    })
m = {
    "version": 1,
    "setup_cmd": "./setup.sh",
    "hooks": T["hooks"],
    "engines": T["engines"],
    "checks": checks,
    "notes": T["notes"],
    "not_applicable": na,
}
json.dump(m, open(os.path.join(ROOT, "MANIFEST.json"), "w"), indent=1)
print("MANIFEST.json: %d checks, %d not claimed" % (len(checks), len(na)))
