#!/bin/bash
# usage: mut.sh <file-in-repo> <python-expr-old> <python-expr-new> <check ids...>
# applies a one-off textual mutation to /repo, runs the checks, and reverts. For monitor validation only.
f=$1; old=$2; new=$3; shift 3
cd /repo || exit 1
if ! git diff --quiet; then echo "repo dirty"; exit 1; fi
python3 - "$f" "$old" "$new" <<'PY'
import sys
p,old,new=sys.argv[1:4]
s=open(p).read()
assert old in s, "pattern not found"
s=s.replace(old,new,1)
open(p,'w').write(s)
PY
[ $? -eq 0 ] || exit 1
GOFLAGS=-mod=mod GOPROXY=off GOSUMDB=off go build ./... || { git checkout -- .; echo "MUTANT DOES NOT BUILD"; exit 1; }
for id in "$@"; do
  out=$(cd /verif && ./check $id 2>&1)
  echo "== $id: $(echo "$out" | grep -c '^VIOLATION') violation lines; $(echo "$out" | grep -E '^(HELD|INCONCLUSIVE)' | head -1)"
  echo "$out" | grep -A1 '^VIOLATION' | grep 'what:' | head -4
done
git checkout -- .
