#!/bin/bash
# usage: mut.sh <file-in-repo> <old text> <new text> <check ids...>
# applies a one-off textual mutation to a scratch worktree of /repo (never to /repo itself), runs the checks
# against it (VERIF_REPO) and removes the mutation again. For monitor validation only.
f=$1; old=$2; new=$3; shift 3
WT=${MUTWT:-/tmp/mutwt}
if [ ! -d $WT ]; then git -C /repo worktree add -q --detach $WT HEAD || exit 1; fi
cd $WT || exit 1
git checkout -q --detach $(git -C /repo rev-parse HEAD) 2>/dev/null
git checkout -q -- . 
python3 - "$f" "$old" "$new" <<'PY'
import sys
p,old,new=sys.argv[1:4]
s=open(p).read()
assert old in s, "pattern not found"
s=s.replace(old,new,1)
open(p,'w').write(s)
PY
[ $? -eq 0 ] || exit 1
GOFLAGS=-mod=mod GOPROXY=off GOSUMDB=off go build ./... || { git checkout -q -- .; echo "MUTANT DOES NOT BUILD"; exit 1; }
for id in "$@"; do
  out=$(cd /verif && VERIF_REPO=$WT ./check $id 2>&1)
  echo "== $id: $(echo "$out" | grep -a -c '^VIOLATION') violation lines; $(echo "$out" | grep -a -E '^(HELD|INCONCLUSIVE)' | head -1)"
  echo "$out" | grep -a -A1 '^VIOLATION' | grep -a 'what:' | head -4
done
git checkout -q -- .
