#!/usr/bin/env python3
"""usage: automutants.py > automutants.json
Generates systematic one-line mutants of /repo's hand-written code for tools/mutbatch.py (monitor validation, not a check):
  guard   - a semantic guard `if COND { return <error/false> }` is switched off (conditions on `err` are left alone: store
            errors cannot be provoked, those mutants are equivalent on every reachable execution)
  relop   - one relational operator of a condition is replaced by its neighbour (< <=, > >=, == !=)
  logic   - && <-> || in a condition
Each mutant names the checks of the properties whose anchors list the file."""
import json, re, os, sys, collections

REPO = "/repo"
props = [json.loads(l) for l in open("/verif/properties.jsonl")]
by_file = collections.defaultdict(list)
for p in props:
    for f in p["anchors"]["files"]:
        by_file[f].append(p["id"])
extra = {  # files no anchor names, and checks that exercise a file although the anchors do not say so
    "x/relayer/keeper/eth.go": ["C16", "C19"], "x/relayer/keeper/tx.go": ["C16"], "x/relayer/keeper/abci.go": ["C16", "C02"],
    "x/locking/keeper/reward.go": ["C12"], "x/locking/keeper/msg_claim.go": ["C12", "C06"], "x/locking/keeper/msg_token.go": ["C13", "C11"],
    "x/locking/keeper/msg_create.go": ["C13"], "x/goat/keeper/eth.go": ["C06", "C08", "C19"], "x/bitcoin/keeper/eth.go": ["C05", "C20", "C06", "C17"],
    "x/bitcoin/types/address.go": ["C17", "C03", "C05"], "x/bitcoin/types/deposit.go": ["C03", "C19"], "x/bitcoin/types/withdrawal.go": ["C05", "C19"],
    "x/bitcoin/keeper/keeper.go": ["C03", "C20"], "x/bitcoin/keeper/tx.go": ["C05", "C03", "C02", "C06"], "x/relayer/types/types.go": ["C01", "C19"],
    "x/relayer/keeper/proposal.go": ["C01", "C02"], "app/ante.go": ["C10"], "x/goat/keeper/abci.go": ["C08", "C19"], "x/goat/keeper/tx.go": ["C08", "C09", "C06"],
    "x/goat/keeper/keeper.go": ["C09"], "x/locking/keeper/abci.go": ["C13", "C14"], "x/locking/keeper/votes.go": ["C14", "C11"],
    "x/locking/keeper/evidence.go": ["C14", "C11"], "x/locking/keeper/msg_lock.go": ["C13", "C14", "C11"], "x/locking/keeper/msg_unlock.go": ["C15", "C11", "C13"],
    "x/locking/keeper/ethtx.go": ["C06", "C15"], "x/bitcoin/types/proof.go": ["C04"], "x/relayer/types/relayer.go": ["C01"],
    "x/locking/module/genesis.go": ["C18"], "x/relayer/module/genesis.go": ["C18"], "x/bitcoin/module/genesis.go": ["C18"], "x/goat/module/genesis.go": ["C18"],
    "x/locking/keeper/keeper.go": ["C13", "C18"], "x/relayer/keeper/keeper.go": ["C02", "C16"],
}
files = sorted(set(list(extra.keys())))
out = []


def checks_for(f):
    c = list(extra.get(f, []))
    for x in by_file.get(f, []):
        if x not in c:
            c.append(x)
    return c[:4]


def strip_strings(s):
    return re.sub(r'"(\\.|[^"\\])*"', lambda m: '"' + "_" * (len(m.group(0)) - 2) + '"', s)


for f in files:
    path = os.path.join(REPO, f)
    if not os.path.exists(path):
        continue
    lines = open(path).read().split("\n")
    seen = collections.Counter()
    for i, line in enumerate(lines):
        key = line + "\n"
        seen[key] += 1
        nth = seen[key]
        st = line.strip()
        if not (st.startswith("if ") or st.startswith("} else if ") or st.startswith("for ")) or not st.endswith("{"):
            continue
        code = strip_strings(line)
        head, cond = code, code
        # condition part: after the last ';' of an if with an init statement
        m = re.match(r"^(\s*(?:\} else )?if )(.*)\{$", code)
        if not m:
            continue
        pre, body = m.group(1), m.group(2)
        init = ""
        if ";" in body:
            init, body = body.rsplit(";", 1)
            init += ";"
        body = body.strip()
        if re.search(r"\berr\b\s*[!=]=\s*nil", body) and "&&" not in body and "||" not in body:
            continue  # pure error plumbing
        nxt = ""
        for j in range(i + 1, min(i + 4, len(lines))):
            if lines[j].strip() and not lines[j].strip().startswith("//"):
                nxt = lines[j].strip()
                break
        mid = f"{f}:{i+1}"
        # guard: only when the body starts with a return of an error / false / a continue / break
        if st.startswith("if ") and re.match(r"^(return\b.*(err|Err|false|nil, )|continue$|break$)", nxt):
            new = line.replace(line[len(pre) - (len(pre) - len(pre.lstrip())):], "", 1) if False else None
            orig_after = line[len(m.group(1)):]  # text after "if "
            if init:
                # keep the init statement, switch the condition off
                k = line.rfind(";")
                newline = line[:k + 1] + " false && (" + line[k + 1:].rstrip()[:-1].strip() + ") {"
            else:
                newline = m.group(1) + "false && (" + line[len(m.group(1)):].rstrip()[:-1].strip() + ") {"
            out.append({"id": "G-" + mid, "file": f, "old": key, "new": newline + "\n", "nth": nth, "checks": checks_for(f), "note": "guard off: " + st[:90]})
        # relational operators and connectors inside the condition (on the real line, positions from the stripped copy)
        k0 = line.rfind(";") + 1 if init else len(m.group(1))
        seg = code[k0:]
        for mm in re.finditer(r"(<=|>=|==|!=|<|>|&&|\|\|)", seg):
            op = mm.group(1)
            a, b = k0 + mm.start(), k0 + mm.end()
            ctx = seg[max(0, mm.start() - 12):mm.end() + 12]
            if op in ("==", "!=") and re.search(r"(nil|err)\s*$", seg[:mm.start()][-8:] + "") :
                continue
            if op in ("==", "!=") and re.match(r"\s*nil", seg[mm.end():]):
                continue
            if op in ("<", ">") and (seg[mm.start() - 1:mm.start()] in ("-", "<", ">") or seg[mm.end():mm.end() + 1] in ("-", "<", ">", "=")):
                continue  # channel ops, shifts
            repl = {"<": "<=", "<=": "<", ">": ">=", ">=": ">", "==": "!=", "!=": "==", "&&": "||", "||": "&&"}[op]
            newline = line[:a] + repl + line[b:]
            kind = "L" if op in ("&&", "||") else "R"
            out.append({"id": f"{kind}-{mid}:{mm.start()}", "file": f, "old": key, "new": newline + "\n", "nth": nth, "checks": checks_for(f), "note": f"{op} -> {repl}: {st[:80]}"})

json.dump(out, sys.stdout, indent=1)
sys.stderr.write("%d mutants over %d files\n" % (len(out), len(files)))
