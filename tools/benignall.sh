#!/bin/bash
# usage: benignall.sh [area ...]   - applies every behaviour-preserving patch under benign/ (one at a time) to a scratch worktree
# of /repo and runs every check's quick tier against it (VERIF_REPO). Anything but HELD is a false alarm to be looked at.
ROOT=$(cd "$(dirname "$0")/.." && pwd)
WT=${BENWT:-/tmp/benwt}
export GOFLAGS=-mod=mod GOPROXY=off GOSUMDB=off GOTOOLCHAIN=local
IDS=$(python3 -c "import json;print(' '.join(c['property_id'] for c in json.load(open('$ROOT/MANIFEST.json'))['checks']))")
[ -d $WT ] || git -C /repo worktree add -q --detach $WT HEAD || exit 1
AREAS=${@:-$(ls $ROOT/benign)}
for a in $AREAS; do
 for p in $ROOT/benign/$a/${BENPAT:-patch-*.diff}; do
  cd $WT; git checkout -q -- . ; git clean -fdq
  git apply $p || { echo "== $a/$(basename $p): DOES NOT APPLY"; continue; }
  go build ./... || { echo "== $a/$(basename $p): DOES NOT BUILD"; continue; }
  for id in ${BENIDS:-$IDS}; do
    out=$(cd $ROOT && VERIF_REPO=$WT ./check $id 2>&1)
    v=$(echo "$out" | grep -a -E '^(HELD|INCONCLUSIVE|VIOLATION)' | head -1)
    case "$v" in HELD*) ;; *) echo "== $a/$(basename $p) $id: $v"; echo "$out" | grep -a -A2 -E '^(VIOLATION|INCONCLUSIVE)' | grep -a 'what:\|detail:\|^   ' | head -6;; esac
  done
  echo "== $a/$(basename $p): done"
 done
done
cd /; git -C /repo worktree remove --force $WT 2>/dev/null
