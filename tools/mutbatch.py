#!/usr/bin/env python3
"""usage: mutbatch.py <mutants.json> [id-prefix ...]
Applies each one-line mutant of the list to a scratch worktree of /repo (never /repo itself), runs the checks named for
it against that worktree (VERIF_REPO) and reverts. Prints one line per mutant: CAUGHT / MISSED / NOBUILD.
For monitor validation only; nothing here is part of a registered check."""
import json, os, subprocess, sys

WT = os.environ.get("MUTWT", "/tmp/mutwt")
ROOT = os.path.dirname(os.path.dirname(os.path.abspath(__file__)))
SHARD = os.environ.get("MUTSHARD", "")  # "k/n": only mutants with index % n == k
ENV = dict(os.environ, GOFLAGS="-mod=mod", GOPROXY="off", GOSUMDB="off", GOTOOLCHAIN="local")


def sh(cmd, cwd=None, env=ENV):
    return subprocess.run(cmd, shell=True, cwd=cwd, env=env, stdout=subprocess.PIPE, stderr=subprocess.STDOUT, text=True, errors="replace")


def main():
    muts = json.load(open(sys.argv[1]))
    sel = sys.argv[2:]
    if not os.path.isdir(WT):
        r = sh(f"git -C /repo worktree add -q --detach {WT} HEAD")
        if r.returncode != 0:
            print(r.stdout)
            sys.exit(1)
    head = sh("git -C /repo rev-parse HEAD").stdout.strip()
    sh(f"git checkout -q --detach {head}; git checkout -q -- .; git clean -fdq", cwd=WT)
    for mi, m in enumerate(muts):
        if sel and not any(m["id"].startswith(s) for s in sel):
            continue
        if SHARD:
            k, n = map(int, SHARD.split("/"))
            if mi % n != k:
                continue
        path = os.path.join(WT, m["file"])
        src = open(path).read()
        nth = m.get("nth", 1)
        pos = -1
        for _ in range(nth):
            pos = src.find(m["old"], pos + 1)
            if pos < 0:
                break
        if pos < 0:
            print(f"{m['id']}: PATTERN NOT FOUND ({m['file']})", flush=True)
            continue
        open(path, "w").write(src[:pos] + m["new"] + src[pos + len(m["old"]):])
        try:
            r = sh("go build ./...", cwd=WT)
            if r.returncode != 0:
                print(f"{m['id']}: NOBUILD {r.stdout.strip().splitlines()[-1:]}", flush=True)
                continue
            verdicts = []
            for chk in m["checks"]:
                r = sh(f"./check {chk}", cwd=ROOT, env=dict(ENV, VERIF_REPO=WT))
                lines = r.stdout.splitlines()
                nv = sum(1 for l in lines if l.startswith("VIOLATION"))
                what = [l.strip() for l in lines if l.strip().startswith("what:")][:2]
                last = [l for l in lines if l.startswith(("HELD", "INCONCLUSIVE"))][:1]
                verdicts.append((chk, nv, what, last))
                if nv > 0 and os.environ.get("MUT_STOP"):
                    break
            caught = any(v[1] > 0 for v in verdicts)
            print(f"{m['id']}: {'CAUGHT' if caught else 'MISSED'} [{m.get('note','')}] " + "; ".join(f"{c}:{n} {w if n else l}" for c, n, w, l in verdicts), flush=True)
        finally:
            open(path, "w").write(src)
    sh("git checkout -q -- .", cwd=WT)


main()
