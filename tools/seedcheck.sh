#!/bin/bash
# usage: seedcheck.sh <seed-dir-name e.g. C13> <name-for-/verif/seeded> <check ids...>
# Confirms a sub-agent's seeded change (build, suite, demo fails with / passes without), then runs the given
# checks against the scratch worktree that carries the change (VERIF_REPO), leaving /repo untouched. Prints a summary; stores nothing by itself.
set -u
ID=$1; NAME=$2; shift 2
WT=/tmp/seed-$ID; OUT=/tmp/seed-$ID-out
export GOFLAGS=-mod=mod GOPROXY=off GOSUMDB=off GOTOOLCHAIN=local
cd $WT || exit 1
echo "--- patch"; cat $OUT/patch.diff | head -80
DEMO=$(git status --short | grep '^??' | awk '{print $2}' | grep '_test.go' | head -1)
echo "--- demo file: $DEMO"
PKG=./$(dirname $DEMO)
RUN=$(grep -o 'func Test[A-Za-z0-9_]*\|func (suite \*KeeperTestSuite) Test[A-Za-z0-9_]*\|func (s \*[A-Za-z]*) Test[A-Za-z0-9_]*' $DEMO | sed 's/.*\(Test[A-Za-z0-9_]*\)/\1/' | paste -sd'|')
echo "--- tests: $RUN in $PKG"
go build ./... || { echo "BUILD FAILS"; exit 1; }
echo "--- suite on changed tree (excluding demo):"
mv $DEMO /tmp/demo-hold.go
go test -vet=off -count=1 ./... 2>&1 | grep -v "no test files" | tail -12
mv /tmp/demo-hold.go $DEMO
echo "--- demo on changed tree (expect FAIL):"
if grep -q 'suite \*KeeperTestSuite\|testify/suite' $DEMO; then R="-run TestKeeper"; A="-testify.m $RUN"; else R="-run $RUN"; A=""; fi
go test -vet=off -count=1 $R $PKG $A 2>&1 | tail -5
echo "--- demo on unchanged tree (expect PASS):"
git diff > /tmp/seedcheck-hold.diff; git checkout -- $(git diff --name-only); go test -vet=off -count=1 $R $PKG $A 2>&1 | tail -3; git apply /tmp/seedcheck-hold.diff
echo "--- running checks against the worktree (VERIF_REPO=$WT): $*"
for id in "$@"; do
  out=$(cd /verif && VERIF_REPO=$WT ./check $id 2>&1)
  echo "== $id: $(echo "$out" | grep -a -c '^VIOLATION') violation lines; $(echo "$out" | grep -a -E '^(HELD|INCONCLUSIVE)' | head -1)"
  echo "$out" | grep -a -A2 '^VIOLATION' | grep -a 'what:\|detail:' | head -6
done
