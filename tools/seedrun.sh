#!/bin/bash
# usage: seedrun.sh <name under /verif/seeded> <check ids...>
# applies a stored seeded change to a scratch worktree of /repo (never to /repo itself), runs the given checks
# against it (VERIF_REPO) and reverts. Used to re-confirm that the checks still catch every kept seed.
NAME=$1; shift
ROOT=$(cd "$(dirname "$0")/.." && pwd)
WT=${MUTWT:-/tmp/mutwt}
export GOFLAGS=-mod=mod GOPROXY=off GOSUMDB=off GOTOOLCHAIN=local
if [ ! -d $WT ]; then git -C /repo worktree add -q --detach $WT HEAD || exit 1; fi
cd $WT || exit 1
git checkout -q --detach $(git -C /repo rev-parse HEAD) 2>/dev/null
git checkout -q -- . ; git clean -fdq
git apply $ROOT/seeded/$NAME/patch.diff || { echo "PATCH DOES NOT APPLY: $NAME"; exit 1; }
go build ./... || { git checkout -q -- .; echo "SEED DOES NOT BUILD: $NAME"; exit 1; }
for id in "$@"; do
  out=$(cd $ROOT && VERIF_REPO=$WT ./check $id 2>&1)
  echo "== $NAME $id: $(echo "$out" | grep -a -c '^VIOLATION') violation lines; $(echo "$out" | grep -a -E '^(HELD|INCONCLUSIVE)' | head -1)"
  echo "$out" | grep -a -A1 '^VIOLATION' | grep -a 'what:' | head -4
done
git checkout -q -- . ; git clean -fdq
