#!/bin/bash
# usage: runall.sh [tier] [seed]  - runs every claimed check and prints one line each
TIER=${1:-quick}; SEED=${2:-1}
cd "$(dirname "$0")/.."
for id in $(python3 -c "import json;print(' '.join(c['property_id'] for c in json.load(open('MANIFEST.json'))['checks']))"); do
  s=$(date +%s)
  out=$(./check $id --tier $TIER --seed $SEED 2>&1); rc=$?
  e=$(date +%s)
  echo "$id rc=$rc $((e-s))s $(echo "$out" | grep -a -E '^(HELD|INCONCLUSIVE|VIOLATION)' | head -2 | tr '\n' ' ' | cut -c1-200)"
done
