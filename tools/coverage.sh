#!/bin/bash
# usage: coverage.sh [tier] [ids...]  - statement coverage of /repo's own packages under the monitors' workloads
# (workload-gap analysis: a line no workload reaches is a line where no change can be noticed). Writes .scratch/cover/.
ROOT=$(cd "$(dirname "$0")/.." && pwd); cd $ROOT
TIER=${1:-quick}; shift
IDS=${@:-$(python3 -c "import json;print(' '.join(c['property_id'] for c in json.load(open('MANIFEST.json'))['checks']))")}
export GOFLAGS=-mod=mod GOPROXY=off GOSUMDB=off GOTOOLCHAIN=local
D=$ROOT/.scratch/cover; rm -rf $D; mkdir -p $D/all
for id in $IDS; do
  mkdir -p $D/$id
  VERIF_COVERDIR=$D/$id ./check $id --tier $TIER 2>&1 | grep -a -E '^(HELD|INCONCLUSIVE|VIOLATION)' | head -2
  (cd harness && go tool covdata textfmt -i=$D/$id -o $D/$id.txt 2>/dev/null)
  cp $D/$id/* $D/all/ 2>/dev/null
done
(cd harness && go tool covdata textfmt -i=$D/all -o $D/all.txt)
python3 - $D/all.txt <<'PY'
import sys,collections
tot=collections.Counter(); cov=collections.Counter(); unc=collections.defaultdict(list)
seen={}
for l in open(sys.argv[1]):
    if l.startswith('mode:'): continue
    loc,n,c=l.rsplit(' ',2)
    f,rng=loc.split(':')
    if '.pb.go' in f or '.pb.gw.go' in f or '/testutil/' in f or '/cmd/' in f or 'simulation' in f: continue
    key=(f,rng)
    seen[key]=(int(n),max(int(c),seen.get(key,(0,0))[1]))
for (f,rng),(n,c) in seen.items():
    tot[f]+=n
    if c>0: cov[f]+=n
    else: unc[f].append(rng)
T=sum(tot.values()); C=sum(cov.values())
print("statements %d covered %d (%.1f%%)"%(T,C,100.0*C/max(T,1)))
for f in sorted(tot):
    print("%5.1f%% %4d/%4d %s"%(100.0*cov[f]/max(tot[f],1),cov[f],tot[f],f.replace('github.com/goatnetwork/goat/','')))
with open(sys.argv[1].replace('all.txt','uncovered.txt'),'w') as o:
    for f in sorted(unc):
        for r in sorted(unc[f],key=lambda r:int(r.split('.')[0])):
            o.write("%s:%s\n"%(f.replace('github.com/goatnetwork/goat/',''),r))
PY
