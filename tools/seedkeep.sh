#!/bin/bash
# usage: seedkeep.sh <seed dir id> <name> <property> <caught-by checks> <needs text> <ran text>
ID=$1; NAME=$2; PROP=$3; CAUGHT=$4; NEEDS=$5; RAN=$6
D=/verif/seeded/$NAME; mkdir -p $D
cp /tmp/seed-$ID-out/patch.diff $D/patch.diff
cp /tmp/seed-$ID-out/demo_test.go $D/demo_test.go 2>/dev/null
cp /tmp/seed-$ID-out/README.md $D/README.agent.md 2>/dev/null
python3 - "$D" "$PROP" "$CAUGHT" "$NEEDS" "$RAN" <<'PY'
import json,sys
d,prop,caught,needs,ran=sys.argv[1:6]
json.dump({"property":prop,"breaks":prop,"needs_to_manifest":needs,"caught_by":caught.split(","),"what_was_run":ran,
 "origin":"fresh sub-agent given only the property text and a scratch worktree"},open(d+"/meta.json","w"),indent=1)
PY
git -C /repo worktree remove --force /tmp/seed-$ID 2>/dev/null; rm -rf /tmp/seed-$ID-out
rm -f /verif/bin/vcheck-*-_tmp_seed_$ID /verif/harness/go.alt_tmp_seed_$ID.*
echo kept $D
