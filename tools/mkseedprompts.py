#!/usr/bin/env python3
"""usage: mkseedprompts.py <emphasis.json> [outdir=/tmp/seedprompts]
Writes one prompt per property for the seeding sub-agents: the property text (properties.jsonl), the rules of the exercise,
an emphasis sentence (emphasis.json: {"C01": "...", ...}) and the list of mechanisms already kept under seeded/ (so that a
new agent does not reproduce them). The agents see nothing of /verif: the prompt file is all they get."""
import json, sys, os, glob
root = os.path.dirname(os.path.dirname(os.path.abspath(__file__)))
emph = json.load(open(sys.argv[1]))
out = sys.argv[2] if len(sys.argv) > 2 else "/tmp/seedprompts"
os.makedirs(out, exist_ok=True)
known = {}
for m in sorted(glob.glob(os.path.join(root, "seeded", "*", "meta.json"))):
    d = json.load(open(m))
    known.setdefault(d["property"], []).append(d["needs_to_manifest"].strip().rstrip("."))
for line in open(os.path.join(root, "properties.jsonl")):
    p = json.loads(line)
    pid = p["id"]
    wt = "/tmp/seed-%s" % pid
    extra = ""
    if pid in ("C03", "C04"):
        extra = " Do not change the position or path handling inside VerifyMerkelProof itself."
    text = f"""You are helping to test a verification effort by *seeding a realistic defect* into a Go code base.

The code base is GOATNetwork/goat (a Cosmos-SDK consensus client for a Bitcoin L2). You have your own scratch git worktree of it at {wt} (detached HEAD). Work ONLY inside {wt} and {wt}-out. Never read, list or touch /repo or /verif (they are off limits), and do not look at other /tmp/seed-* directories. Do NOT use `git stash` (the stash is shared with other people's worktrees of the same repository).

Every shell command needs this environment first (the sandbox has no network):
  export GOFLAGS=-mod=mod GOPROXY=off GOSUMDB=off GOTOOLCHAIN=local

The property that the code base is supposed to satisfy:

  {pid} - {p['title']}
  {p['statement']}
  It must hold {p['quantifier']['text']}.
  Code anchors: {', '.join(p['anchors']['files'])}

Your task: make ONE small, realistic change to the non-test source code (the kind of slip a competent developer could make in a refactoring, an optimisation or a feature tweak - not sabotage, no new dead flags, no comments announcing it) such that
  1. the tree still builds (`go build ./...`),
  2. the ENTIRE existing test suite still passes unedited (`go test -vet=off -count=1 ./...`) - you must not edit, delete or skip existing tests,
  3. the property above no longer holds, and
  4. the violation needs something specific to manifest - a particular multi-step sequence of operations, an unusual input or boundary value, a crash/fault/restart at a particular point, a particular interleaving, or two cooperating sites that each look fine alone. It must NOT be something that ordinary use (the plain happy path of every block / every deposit / every vote) would expose at once.

For variety, prefer {emph[pid]}. The change must break THIS property's statement as written, not merely some neighbouring behaviour. The change may be anywhere in the repository's own code (app/, pkg/, x/), not only in the anchor files.{extra}

The following mechanisms are already known and NOT interesting - do not produce them or close variants of them (each is described by what it needs to manifest): {'; '.join(known.get(pid, []))}.

Also write a demonstration: ONE new Go test file (name it zz_seed_demo_test.go, placed in the package it tests, using that package's existing test fixtures/mocks if convenient) that FAILS with your change and PASSES on the unchanged tree. Verify both directions yourself: `git diff > {wt}-out/p.diff; git apply -R {wt}-out/p.diff; <run demo: must pass>; git apply {wt}-out/p.diff; <run demo: must fail>`.

Deliver, in {wt}-out/:
  - patch.diff  : `git diff` of the source change only (NOT including the demo test; the demo stays an untracked file in the worktree)
  - demo_test.go: a copy of the demonstration test file
  - README.md   : what the change is, why the property breaks, exactly what is needed for it to manifest (the sequence / input / fault), and the commands you ran with their outcomes (build, full suite on the changed tree, demo with and without the change).
Leave the worktree with the change applied and the demo test present as an untracked file. Do not commit anything.

Finish with a short report: the changed file(s) and function(s), the triggering condition, and confirmation of the four points above.
"""
    open(os.path.join(out, pid + ".txt"), "w").write(text)
print("wrote", out)
