#!/bin/bash
# re-runs every kept seeded change against the checks recorded as catching it (quick tier); prints one line per (seed, check)
ROOT=$(cd "$(dirname "$0")/.." && pwd)
export MUTWT=${MUTWT:-/tmp/seedwt}
# SEEDSHARD=i/n runs every n-th seed starting at the i-th (for parallel runs, each with its own MUTWT)
SI=${SEEDSHARD%/*}; SN=${SEEDSHARD#*/}; K=0
for d in $ROOT/seeded/*/; do
  n=$(basename $d)
  K=$((K+1))
  if [ -n "${SEEDSHARD:-}" ] && [ $((K % SN)) -ne $((SI % SN)) ]; then continue; fi
  checks=$(python3 -c "import json,sys;print(' '.join(json.load(open('$d/meta.json'))['caught_by']))")
  $ROOT/tools/seedrun.sh $n $checks
done
git -C /repo worktree remove --force $MUTWT 2>/dev/null
