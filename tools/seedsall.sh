#!/bin/bash
# re-runs every kept seeded change against the checks recorded as catching it (quick tier); prints one line per (seed, check)
ROOT=$(cd "$(dirname "$0")/.." && pwd)
export MUTWT=${MUTWT:-/tmp/seedwt}
for d in $ROOT/seeded/*/; do
  n=$(basename $d)
  checks=$(python3 -c "import json,sys;print(' '.join(json.load(open('$d/meta.json'))['caught_by']))")
  $ROOT/tools/seedrun.sh $n $checks
done
git -C /repo worktree remove --force $MUTWT 2>/dev/null
