#!/bin/sh
# Builds the worker binaries offline from /repo's current tree and the committed harness sources.
set -e
cd "$(dirname "$0")/harness"
export GOFLAGS=-mod=mod GOPROXY=off GOSUMDB=off GOTOOLCHAIN=local CGO_ENABLED=1
mkdir -p ../bin
go build -tags verif -o ../bin/vcheck-plain ./cmd/vcheck
go build -race -tags verif -o ../bin/vcheck-race ./cmd/vcheck
go build -asan -tags verif -o ../bin/vcheck-asan ./cmd/vcheck
echo setup ok
